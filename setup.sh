#!/bin/sh
# offline setup: verify tools, parse every spec module with SANY, warm nothing else
set -e
cd "$(dirname "$0")"
command -v java >/dev/null
test -x /venv/bin/python
mkdir -p .work evidence replay
( cd spec && for f in *.tla; do
  java -cp /opt/veriftools/tla/tla2tools.jar:/opt/veriftools/tla/CommunityModules-deps.jar tla2sany.SANY "$f" >/dev/null 2>&1 || { echo "SANY failed on $f"; exit 1; }
done )
/venv/bin/python -c "import outrank, numba, hypothesis" 
echo setup ok
