"""Bootstrap for CLI runs of the real tool in a fresh interpreter:
  python cli_boot.py <events.json|-> -- <outrank CLI arguments...>
Shortens the 4 s polling sleep of mixed_rank_graph (virtual time: the polled condition is
unchanged), optionally installs the recorder of pipe_ops (events written to the given file),
then calls outrank.__main__.main() exactly as the `outrank` console script does."""
from __future__ import annotations

import json
import os
import sys
import time as _time

sys.path.insert(0, os.path.dirname(os.path.dirname(os.path.abspath(__file__))))


def main():
    evfile = sys.argv[1]
    argv = sys.argv[3:]
    import outrank.core_ranking as CR

    class FastTime:
        def __getattr__(self, k):
            return getattr(_time, k)

        @staticmethod
        def sleep(s):
            _time.sleep(min(s, 0.02))
    CR.time = FastTime()
    rec = None
    if evfile != '-':
        from harness import pipe_ops as PO
        rec = PO.Recorder(json.loads(os.environ.get('VERIF_REC_OPTS', '{}')))
        PO.install(rec)
        import logging

        class _H(logging.Handler):
            def emit(self, record):
                try:
                    msg = record.getMessage()
                except Exception:
                    return
                if msg.startswith('Detected ') and 'invalid lines' in msg:
                    rec.log(e='invalid', n=int(msg.split()[1]))
        logging.getLogger().addHandler(_H(level=logging.INFO))
        import outrank.task_ranking as TR
        TR.estimate_importances_minibatches = CR.estimate_importances_minibatches
    sys.argv = ['outrank'] + argv
    from outrank.__main__ import main as outrank_main
    code = 0
    try:
        outrank_main()
    except SystemExit as e:
        code = e.code or 0
    finally:
        if rec is not None:
            with open(evfile, 'w') as f:
                json.dump(rec.ev, f)
    sys.exit(code)


if __name__ == '__main__':
    main()
