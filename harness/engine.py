"""Shared machinery: TLC runner, TLA+ value parser, evidence / known-findings writer,
child-process runner, trace validation helper.

Everything here is stdlib-only so that it runs under /venv/bin/python (which also has the
repository's dependencies) as well as under any other python3.
"""
from __future__ import annotations

import json
import os
import re
import shutil
import signal
import subprocess
import sys
import tempfile
import time

VERIF = os.path.dirname(os.path.dirname(os.path.abspath(__file__)))
SPEC = os.path.join(VERIF, 'spec')
REPO = os.environ.get('OUTRANK_REPO', '/repo')
PY = os.environ.get('OUTRANK_PY', '/venv/bin/python')
WORK_ROOT = os.path.join(VERIF, '.work')
EVIDENCE = os.path.join(VERIF, 'evidence')
REPLAY = os.path.join(VERIF, 'replay')
KNOWN = os.path.join(VERIF, 'known_findings.json')
NUMBA_CACHE = os.path.join(WORK_ROOT, 'numba_cache')


class MachineryError(Exception):
    """Raised when the check itself could not be carried out (exit code 2)."""


# --------------------------------------------------------------------------- work dirs

def workdir(tag: str) -> str:
    os.makedirs(WORK_ROOT, exist_ok=True)
    d = tempfile.mkdtemp(prefix=f'{tag}.', dir=WORK_ROOT)
    return d


def cleanup(d: str) -> None:
    shutil.rmtree(d, ignore_errors=True)


def child_env(extra: dict | None = None) -> dict:
    env = dict(os.environ)
    env.setdefault('PYTHONHASHSEED', '0')
    env['NUMBA_CACHE_DIR'] = NUMBA_CACHE
    env['OUTRANK_VERIF'] = '1'
    env['PYTHONPATH'] = VERIF + os.pathsep + REPO + os.pathsep + env.get('PYTHONPATH', '')
    env['PYTHONDONTWRITEBYTECODE'] = '1'
    env['OMP_NUM_THREADS'] = '1'
    env['OPENBLAS_NUM_THREADS'] = '1'
    env['MKL_NUM_THREADS'] = '1'
    env['NUMBA_NUM_THREADS'] = '1'
    if extra:
        env.update({k: str(v) for k, v in extra.items()})
    return env


# --------------------------------------------------------------------------- TLA+ values

class HDict(dict):
    """dict that can be a member of a (frozen)set: TLA+ functions/records inside sets."""
    def __hash__(self):
        return hash(frozenset(self.items()))


class _P:
    def __init__(self, s: str):
        self.s = s
        self.i = 0

    def ws(self):
        s, n = self.s, len(self.s)
        while self.i < n and s[self.i] in ' \t\r\n':
            self.i += 1

    def peek(self, k=1):
        return self.s[self.i:self.i + k]

    def expect(self, tok):
        self.ws()
        if not self.s.startswith(tok, self.i):
            raise ValueError(f'expected {tok!r} at {self.i}: {self.s[self.i:self.i+40]!r}')
        self.i += len(tok)

    def value(self):
        self.ws()
        s = self.s
        c = self.peek()
        if self.peek(2) == '<<':
            self.i += 2
            out = []
            self.ws()
            if self.peek(2) == '>>':
                self.i += 2
                return tuple(out)
            while True:
                out.append(self.value())
                self.ws()
                if self.peek(2) == '>>':
                    self.i += 2
                    return tuple(out)
                self.expect(',')
        if c == '{':
            self.i += 1
            out = []
            self.ws()
            if self.peek() == '}':
                self.i += 1
                return frozenset(out)
            while True:
                out.append(self.value())
                self.ws()
                if self.peek() == '}':
                    self.i += 1
                    return frozenset(out)
                self.expect(',')
        if c == '[':
            self.i += 1
            out = HDict()
            while True:
                self.ws()
                m = re.compile(r'[A-Za-z_][A-Za-z0-9_]*').match(s, self.i)
                key = m.group(0)
                self.i = m.end()
                self.expect('|->')
                out[key] = self.value()
                self.ws()
                if self.peek() == ']':
                    self.i += 1
                    return out
                self.expect(',')
        if c == '(':
            self.i += 1
            out = HDict()
            while True:
                k = self.value()
                self.expect(':>')
                v = self.value()
                out[k] = v
                self.ws()
                if self.peek() == ')':
                    self.i += 1
                    return out
                self.expect('@@')
        if c == '"':
            j = self.i + 1
            buf = []
            while s[j] != '"':
                if s[j] == '\\':
                    nxt = s[j + 1]
                    buf.append({'n': '\n', 't': '\t', 'r': '\r', 'f': '\f'}.get(nxt, nxt))
                    j += 2
                else:
                    buf.append(s[j])
                    j += 1
            self.i = j + 1
            return ''.join(buf)
        m = re.compile(r'-?\d+').match(s, self.i)
        if m:
            self.i = m.end()
            a = int(m.group(0))
            self.ws()
            if self.peek(2) == '..':
                self.i += 2
                b = self.value()
                return frozenset(range(a, b + 1))
            return a
        m = re.compile(r'[A-Za-z_][A-Za-z0-9_]*').match(s, self.i)
        if m:
            self.i = m.end()
            w = m.group(0)
            if w == 'TRUE':
                return True
            if w == 'FALSE':
                return False
            return w  # model value
        raise ValueError(f'cannot parse TLA+ value at {self.i}: {s[self.i:self.i+40]!r}')


def parse_tla(text: str):
    p = _P(text)
    v = p.value()
    return v


_TOK = re.compile(r'\s*(?:(<<)|(>>)|(\{)|(\})|(\[)|(\])|(\()|(\))|(,)|(:>)|(@@)|(\|->)|(\.\.)|("(?:[^"\\]|\\.)*")|(-?\d+)|([A-Za-z_][A-Za-z0-9_]*))')
_ESC = re.compile(r'\\(.)')
_ESCMAP = {'n': '\n', 't': '\t', 'r': '\r', 'f': '\f'}


def parse_tla_fast(text):
    pos = 0
    n = len(text)
    toks = []
    for m in _TOK.finditer(text):
        if m.start() != pos:
            break
        pos = m.end()
        toks.append((m.lastindex, m.group(m.lastindex)))
    i = 0

    def value():
        nonlocal i
        k, t = toks[i]
        i += 1
        if k == 1:      # <<
            out = []
            if toks[i][0] == 2:
                i += 1
                return ()
            while True:
                out.append(value())
                k2 = toks[i][0]
                i += 1
                if k2 == 2:
                    return tuple(out)
        if k == 3:      # {
            out = []
            if toks[i][0] == 4:
                i += 1
                return frozenset()
            while True:
                out.append(value())
                k2 = toks[i][0]
                i += 1
                if k2 == 4:
                    return frozenset(out)
        if k == 5:      # [ record
            out = HDict()
            while True:
                key = toks[i][1]
                i += 2          # name, |->
                out[key] = value()
                k2 = toks[i][0]
                i += 1
                if k2 == 6:
                    return out
        if k == 7:      # ( function
            out = HDict()
            while True:
                kk = value()
                i += 1          # :>
                out[kk] = value()
                k2 = toks[i][0]
                i += 1
                if k2 == 8:
                    return out
        if k == 14:
            s = t[1:-1]
            if '\\' in s:
                s = _ESC.sub(lambda m: _ESCMAP.get(m.group(1), m.group(1)), s)
            return s
        if k == 15:
            a = int(t)
            if i < len(toks) and toks[i][0] == 13:
                i += 1
                b = value()
                return frozenset(range(a, b + 1))
            return a
        if k == 16:
            if t == 'TRUE':
                return True
            if t == 'FALSE':
                return False
            return t
        raise ValueError(f'unexpected token {t!r}')
    return value()


def fun_to_list(f, n=None):
    """A TLC function with domain 1..n printed as <<...>> (tuple) or (1 :> a @@ ...)."""
    if isinstance(f, tuple):
        return list(f)
    if isinstance(f, dict):
        ks = sorted(f)
        return [f[k] for k in ks]
    raise TypeError(f)


def tla_str(v) -> str:
    """Python value -> TLA+ expression text (ints, bools, strings, lists/tuples, sets, dicts
    with str keys as records, dicts with int keys as functions)."""
    if isinstance(v, bool):
        return 'TRUE' if v else 'FALSE'
    if isinstance(v, int):
        return str(v)
    if isinstance(v, str):
        return '"' + v.replace('\\', '\\\\').replace('"', '\\"') + '"'
    if isinstance(v, (list, tuple)):
        return '<<' + ', '.join(tla_str(x) for x in v) + '>>'
    if isinstance(v, (set, frozenset)):
        return '{' + ', '.join(tla_str(x) for x in sorted(v, key=repr)) + '}'
    if isinstance(v, dict):
        if not v:
            return '<<>>'
        if all(isinstance(k, str) and re.fullmatch(r'[A-Za-z_][A-Za-z0-9_]*', k) for k in v):
            return '[' + ', '.join(f'{k} |-> {tla_str(x)}' for k, x in v.items()) + ']'
        return '(' + ' @@ '.join(f'{tla_str(k)} :> {tla_str(x)}' for k, x in v.items()) + ')'
    raise TypeError(type(v))


def extract_tuples(stdout: str, tag: str):
    """Yield the parsed tuples <<"TAG", ...>> printed by PrintT.  TLC prints one value per
    PrintT call: either on one line, or pretty-printed over several lines of which all but the
    first are indented.  A record that does not parse (e.g. interleaved output) falls back to
    bracket matching and finally raises MachineryError - never a silent loss."""
    head = re.compile(r'^<<\s*"' + re.escape(tag) + '"')
    lines = stdout.split('\n')
    i, n = 0, len(lines)
    texts = []
    while i < n:
        ln = lines[i]
        if ln.startswith('<<') and head.match(ln):
            j = i + 1
            while j < n and lines[j][:1] in (' ', '\t'):
                j += 1
            texts.append(ln if j == i + 1 else '\n'.join(lines[i:j]))
            i = j
        else:
            i += 1
    # TLC workers print in a nondeterministic order: sort, so that a check is a function of VERIF_SEED
    texts.sort()
    for text in texts:
        try:
            yield parse_tla_fast(text)
            continue
        except Exception:
            pass
        try:
            yield parse_tla(text)
        except Exception as e:
            raise MachineryError(f'unparsable TLC output near {text[:160]!r}: {e}')


# --------------------------------------------------------------------------- TLC

class TLCResult:
    def __init__(self):
        self.stdout = ''
        self.rc = None
        self.generated = 0
        self.distinct = 0
        self.depth = 0
        self.violated = None       # name of violated invariant / property
        self.error = None          # other TLC error text
        self.wall_s = 0.0
        self.coverage = {}         # action name -> (distinct, generated)
        self.post_failed = False

    @property
    def ok(self):
        return self.violated is None and self.error is None and not self.post_failed


_RE_STATES = re.compile(r'(\d+) states generated, (\d+) distinct states found')
_RE_DEPTH = re.compile(r'The depth of the complete state graph search is (\d+)')
_RE_INV = re.compile(r'Invariant (\S+) is violated')
_RE_PROP = re.compile(r'(?:Action|Temporal|Safety) property (\S+)?\s*(?:of.*)?(?:is|was) violated')
_RE_COV = re.compile(r'^<(\w+) line (\d+), col (\d+) to line (\d+), col (\d+) of module (\w+)>: (\d+):(\d+)', re.M)


def run_tlc(module: str, cfg: str, *, workers: int | str = 'auto', simulate: str | None = None,
            depth: int | None = None, seed: int | None = None, coverage: bool = False,
            env: dict | None = None, timeout: int = 900, deadlock: bool = False,
            extra: list | None = None, cwd: str | None = None, dfs: bool = False) -> TLCResult:
    """Run TLC on spec/<module>.tla with the given cfg file (path).  Returns TLCResult."""
    wd = workdir('tlc')
    res = TLCResult()
    try:
        cmd = ['java', '-XX:+UseParallelGC', '-Xmx12g', '-Xss256m', '-DTLA-Library=' + SPEC]
        if dfs:
            cmd.append('-Dtlc2.tool.queue.IStateQueue=StateDeque')
        cmd += ['-cp', '/opt/veriftools/tla/tla2tools.jar:/opt/veriftools/tla/CommunityModules-deps.jar',
                'tlc2.TLC', '-metadir', os.path.join(wd, 'meta'), '-noGenerateSpecTE',
                '-workers', str(workers), '-config', cfg]
        if simulate:
            cmd += ['-simulate', simulate]
        if depth is not None:
            cmd += ['-depth', str(depth)]
        if seed is not None:
            cmd += ['-seed', str(seed)]
        if coverage:
            cmd += ['-coverage', '1']
        if deadlock:
            cmd += ['-deadlock']
        if extra:
            cmd += extra
        mod_path = module if module.endswith('.tla') else os.path.join(SPEC, module + '.tla')
        cmd.append(mod_path)
        e = dict(os.environ)
        if env:
            e.update({k: str(v) for k, v in env.items()})
        t0 = time.time()
        try:
            p = subprocess.run(cmd, cwd=cwd or os.path.dirname(mod_path), env=e, stdout=subprocess.PIPE,
                               stderr=subprocess.STDOUT, timeout=timeout, text=True, errors='replace')
            res.stdout = p.stdout
            res.rc = p.returncode
        except subprocess.TimeoutExpired as te:
            res.stdout = (te.stdout or b'').decode('utf-8', 'replace') if isinstance(te.stdout, bytes) else (te.stdout or '')
            res.error = f'TLC timeout after {timeout}s'
            subprocess.run(['pkill', '-f', os.path.join(wd, 'meta')], check=False)
        res.wall_s = time.time() - t0
        out = res.stdout
        m = None
        for m in _RE_STATES.finditer(out):
            pass
        if m:
            res.generated, res.distinct = int(m.group(1)), int(m.group(2))
        m = _RE_DEPTH.search(out)
        if m:
            res.depth = int(m.group(1))
        m = _RE_INV.search(out)
        if m:
            res.violated = m.group(1)
        elif 'Temporal properties were violated' in out:
            res.violated = 'temporal'
        elif 'is violated' in out or 'was violated' in out:
            m2 = re.search(r'property (\S+) (?:is|was) violated', out)
            res.violated = m2.group(1) if m2 else 'property'
        if re.search(r'Postcondition \S+ .*is false', out) or ('Postcondition' in out and 'violated' in out):
            res.post_failed = True
        if res.violated is None and res.error is None and not res.post_failed:
            if res.rc not in (0,):
                # parse errors, evaluation errors, assertion failures...
                m3 = re.search(r'Error: (.*(?:\n.*){0,12})', out)
                res.error = (m3.group(1) if m3 else out[-1500:]).strip()
        for m in _RE_COV.finditer(out):
            res.coverage[m.group(1)] = (int(m.group(7)), int(m.group(8)))
        return res
    finally:
        cleanup(wd)


def require_ok(res: TLCResult, what: str):
    if res.error:
        raise MachineryError(f'{what}: TLC failed: {res.error[:1500]}')


def write_mc(wd: str, base: str, defs: dict, name: str = 'MC') -> str:
    """Write a wrapper module <name>.tla in wd that EXTENDS `base` and defines the given operators
    (used as `Const <- MC_x` overrides for constants that a cfg file cannot express)."""
    path = os.path.join(wd, name + '.tla')
    with open(path, 'w') as f:
        f.write(f'---- MODULE {name} ----\nEXTENDS {base}\n')
        for k, v in defs.items():
            f.write(f'{k} == {v}\n')
        f.write('====\n')
    return path


def write_cfg(path: str, *, init='Init', next_='Next', spec=None, constants: dict | None = None,
              invariants=(), properties=(), constraint=None, action_constraint=None, view=None,
              postcondition=None, deadlock=False, symmetry=None) -> str:
    lines = []
    if spec:
        lines.append(f'SPECIFICATION {spec}')
    else:
        lines += [f'INIT {init}', f'NEXT {next_}']
    if constants:
        lines.append('CONSTANTS')
        for k, v in constants.items():
            lines.append(f'  {k} = {v}' if not str(v).startswith('<-') else f'  {k} {v}')
    for inv in invariants:
        lines.append(f'INVARIANT {inv}')
    for pr in properties:
        lines.append(f'PROPERTY {pr}')
    if constraint:
        lines.append(f'CONSTRAINT {constraint}')
    if action_constraint:
        lines.append(f'ACTION_CONSTRAINT {action_constraint}')
    if view:
        lines.append(f'VIEW {view}')
    if symmetry:
        lines.append(f'SYMMETRY {symmetry}')
    if postcondition:
        lines.append(f'POSTCONDITION {postcondition}')
    lines.append(f'CHECK_DEADLOCK {"TRUE" if deadlock else "FALSE"}')
    with open(path, 'w') as f:
        f.write('\n'.join(lines) + '\n')
    return path


def run_apalache(module_path: str, args: list, timeout: int = 900):
    """apalache-mc check <args> <module>.  Returns 'ok' (NoError), 'violation' (an invariant violation was found) or
    raises MachineryError (tool failure, timeout)."""
    wd = workdir('apa')
    try:
        cmd = ['apalache-mc', 'check'] + list(args) + ['--out-dir=' + os.path.join(wd, 'out'), '--run-dir=' + os.path.join(wd, 'run'), module_path]
        try:
            p = subprocess.run(cmd, cwd=wd, stdout=subprocess.PIPE, stderr=subprocess.STDOUT, timeout=timeout, env=dict(os.environ, JVM_ARGS='-Xmx6g'))
        except subprocess.TimeoutExpired:
            raise MachineryError(f'apalache timed out on {os.path.basename(module_path)} {args}')
        out = p.stdout.decode('utf-8', 'replace')
        log(f'apalache {args} rc={p.returncode}')
        if 'The outcome is: NoError' in out and p.returncode == 0:
            return 'ok'
        if 'The outcome is: Error' in out and p.returncode == 12:
            return 'violation'
        raise MachineryError(f'apalache failed on {os.path.basename(module_path)} {args}: {out[-600:]}')
    finally:
        cleanup(wd)


# --------------------------------------------------------------------------- simulate-file parser

_RE_STATE_HDR = re.compile(r'^\\\* <(\w+) .*?>\s*$|^STATE_(\d+) ==\s*$', re.M)


def parse_sim_file(path: str):
    """Parse one behaviour written by `tlc -simulate file=...`: list of (action, state dict)."""
    text = open(path).read()
    out = []
    # blocks look like:  \* <Action line .. of module M>\nSTATE_n == \n/\ v = ...\n/\ w = ...\n
    blocks = re.split(r'^STATE_\d+ ==\s*$', text, flags=re.M)
    heads = re.findall(r'^\\\* <?(\w+)?[^\n]*$\n(?=STATE_\d+ ==)', text, flags=re.M)
    for k, blk in enumerate(blocks[1:]):
        act = heads[k] if k < len(heads) else None
        blk = blk.split('\n\\*')[0]
        st = {}
        for m in re.finditer(r'^/\\ (\w+) = (.*?)(?=^/\\ \w+ = |\Z)', blk, flags=re.M | re.S):
            txt = m.group(2).strip()
            txt = txt.split('\n\n')[0].strip()
            try:
                st[m.group(1)] = parse_tla(txt)
            except Exception:
                st[m.group(1)] = txt
        out.append((act, st))
    return out


# --------------------------------------------------------------------------- findings / evidence

def load_known():
    if not os.path.exists(KNOWN):
        return {'open': [], 'fixed': []}
    with open(KNOWN) as f:
        return json.load(f)


class Verdict:
    """Collects violations for one property, applies the known-findings file, prints the
    protocol lines and writes the evidence file."""

    def __init__(self, pid: str, tier: str, seed: int):
        self.pid = pid
        self.tier = tier
        self.seed = seed
        self.t0 = time.time()
        self.violations = []          # (key, text, replay_path)
        self._per_kind = {}
        self._nfiles = 0
        self.known_hits = {}
        self.coverage = {'states': 0, 'transitions': 0, 'traces_validated_against_impl': 0,
                         'samples': [], 'evaluations': 0, 'distinct_nontrivial': 0, 'rule': ''}
        self.assumptions = []
        self.notes = {}
        self._known = [k for k in load_known().get('open', []) if k.get('property') == pid]
        os.makedirs(REPLAY, exist_ok=True)

    # -- coverage helpers
    def add_tlc(self, res: TLCResult, label: str):
        self.coverage['states'] += res.distinct
        self.coverage['transitions'] += res.generated
        self.coverage.setdefault('tlc_runs', []).append(
            {'run': label, 'distinct_states': res.distinct, 'states_generated': res.generated,
             'depth': res.depth, 'wall_s': round(res.wall_s, 2),
             'actions': {k: list(v) for k, v in res.coverage.items()}})

    def add_sample(self, s):
        if len(self.coverage['samples']) < 12:
            self.coverage['samples'].append(s)

    def count(self, evaluations=0, nontrivial=0, traces=0):
        self.coverage['evaluations'] += evaluations
        self.coverage['distinct_nontrivial'] += nontrivial
        self.coverage['traces_validated_against_impl'] += traces

    # -- violations
    def violation(self, key: str, text: str, case=None):
        """key: stable identifier of the failing input/call site (matched against
        known_findings.json `match` regexes)."""
        for k in self._known:
            if re.search(k['match'], key):
                self.known_hits.setdefault(k['id'], (k, text))
                return False
        kind = key.split(':', 1)[0]
        self._per_kind[kind] = self._per_kind.get(kind, 0) + 1
        if self._per_kind[kind] <= 8 and self._nfiles < 60:
            path = os.path.join(REPLAY, f'{self.pid}-{self._nfiles}.json')
            self._nfiles += 1
            with open(path, 'w') as f:
                json.dump({'property': self.pid, 'key': key, 'text': text, 'case': case}, f, default=str, indent=1)
            self.violations.append((key, text, path))
        else:
            self.violations.append((key, text, self.violations[0][2]))
        return True

    def tlc_violation(self, res: TLCResult, label: str):
        if res.violated or res.post_failed:
            tail = res.stdout[-3000:]
            self.violation(f'spec:{label}:{res.violated or "postcondition"}',
                           f'TLC reports {res.violated or "postcondition"} violated in {label}', {'tlc_tail': tail})

    def finish(self, level='model_checking') -> int:
        wall = time.time() - self.t0
        for kid, (k, text) in self.known_hits.items():
            print(f'KNOWN-FINDING: property={self.pid} {k["what"]} [{kid}]')
        seen = set()
        for key, text, path in self.violations:
            if path in seen:
                continue
            seen.add(path)
            print(f'VIOLATION property={self.pid} replay={path}')
            print(f'  {key}: {text}'[:600])
        cov = self.coverage
        if self._per_kind:
            cov['violations_by_kind'] = dict(self._per_kind)
            print(f'  violations by kind: {self._per_kind}')
        if not cov['rule']:
            cov['rule'] = 'see DESIGN.md'
        cov.update(self.notes)
        ev = {
            'property_id': self.pid, 'tier': self.tier, 'seed': self.seed, 'level': level,
            'coverage': cov, 'assumptions': self.assumptions, 'wall_s': round(wall, 2),
            'violations': len(self.violations),
            'known_findings_hit': sorted(self.known_hits),
        }
        os.makedirs(EVIDENCE, exist_ok=True)
        with open(os.path.join(EVIDENCE, f'{self.pid}.json'), 'w') as f:
            json.dump(ev, f, indent=1, default=str)
        status = 'FAIL' if self.violations else 'ok'
        print(f'[{self.pid}] {status} tier={self.tier} seed={self.seed} states={cov["states"]} '
              f'impl_traces={cov["traces_validated_against_impl"]} evaluations={cov["evaluations"]} wall={wall:.1f}s')
        return 1 if self.violations else 0


# --------------------------------------------------------------------------- child processes

def run_child(script: str, args: list, *, stdin_obj=None, env: dict | None = None, timeout=900):
    """Run harness/<script> under the repo's python in a fresh process.  Returns
    (returncode, parsed-JSON-or-None, stderr-tail).  A negative returncode = killed by signal."""
    cmd = [PY, os.path.join(VERIF, 'harness', script)] + [str(a) for a in args]
    data = json.dumps(stdin_obj).encode() if stdin_obj is not None else None
    try:
        p = subprocess.run(cmd, input=data, stdout=subprocess.PIPE, stderr=subprocess.PIPE,
                           env=child_env(env), timeout=timeout, cwd=VERIF)
    except subprocess.TimeoutExpired:
        return 'timeout', None, ''
    out = None
    txt = p.stdout.decode('utf-8', 'replace')
    # last line that parses as JSON is the result
    for line in reversed(txt.strip().splitlines()):
        line = line.strip()
        if line.startswith('{') or line.startswith('['):
            try:
                out = json.loads(line)
                break
            except Exception:
                continue
    return p.returncode, out, p.stderr.decode('utf-8', 'replace')[-3000:]


def signal_name(rc):
    if isinstance(rc, int) and rc < 0:
        try:
            return signal.Signals(-rc).name
        except Exception:
            return f'signal {-rc}'
    return str(rc)


_T0 = time.time()


def log(msg):
    if os.environ.get('VERIF_DEBUG'):
        print(f'[{time.time() - _T0:7.1f}s] {msg}', file=sys.stderr, flush=True)


def tier_seed(argv=None):
    import argparse
    ap = argparse.ArgumentParser()
    ap.add_argument('--tier', default=os.environ.get('VERIF_TIER', 'quick'))
    ap.add_argument('--replay', default=None)
    a = ap.parse_args(argv)
    seed = int(os.environ.get('VERIF_SEED', '0') or 0)
    tier = a.tier if a.tier in ('quick', 'thorough') else 'quick'
    return tier, seed, a.replay
