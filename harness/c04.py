"""C04 - subsampled estimation is memory-safe, deterministic, sample-only."""
from __future__ import annotations

import json
import math
import os
import random
import struct
import sys

sys.path.insert(0, os.path.dirname(os.path.dirname(os.path.abspath(__file__))))
from harness import engine as E
from harness import mi_common as MC
from harness import mi_oracle as O

PID = 'C04'
INVS = ['NoUninitialisedRead', 'SampleIsPrefixes', 'InRange', 'ResultIsSampleScore', 'SampleOnly']
DEN = 8


def f32(r):
    return struct.unpack('f', struct.pack('f', r))[0]


def final_of(r, n):
    return int(f32(r) * n)           # float32 ratio * int64 length -> float64 product, truncated (numba semantics)


def same(a, b):
    return a == b or (isinstance(a, float) and isinstance(b, float) and math.isnan(a) and math.isnan(b))


def main():
    tier, seed, replay = E.tier_seed()
    V = E.Verdict(PID, tier, seed)
    rng = random.Random(seed * 32452843 + 4)
    V.coverage['rule'] = ('TLC: every (Y,X) x ratio r/8 (r=2..7) x correction flag through the step machine Enter/WritePrefix*/Gather/Detect/StratumStep*; '
                          'invariants NoUninitialisedRead, SampleIsPrefixes, SampleOnly.  Each state replayed into the real code in child processes after '
                          'heap poisoning: (1) stratified_subsampling returns exactly (Y[S],X[S]) for the spec sample S, (2) the score is finite, equal over 3 '
                          'repetitions and over 3 processes with different poison/hash seeds, (3) altering Y outside S leaves the score unchanged; '
                          'seeded larger cases (n<=5000, non-dyadic ratios) validated by MISampleTrace / the cross-checked transcription.  r denotes the float32 '
                          'ratio the estimator receives.  non-trivial = distinct cases with quota>0 and (some stratum smaller than the quota or floor(r*n) not a multiple of #values)')
    V.assumptions += ['uninitialised memory is provoked, not enumerated: poison values written into freed numba allocations of the buffer size',
                      'the formula evaluated on the sample is recorded as spec_drift only (the property does not fix it)']

    # deviation controls: the model of the code as written before the repair must fail
    for dev, inv, kw in (('GatherWholeBuffer', 'NoUninitialisedRead', {'whole': True}), ('DetectBeforeSampling', 'ResultIsSampleScore', {'before': True})):
        Vt = E.Verdict(PID, tier, seed)
        r, _ = MC.run_mi(Vt, dev, MC.mi_constants(4, 2, False, [True], [4, 5, 6], **kw), [inv], emit=False)
        if r.violated != inv:
            raise E.MachineryError(f'deviation control {dev} did not violate {inv}')
    V.notes['deviation_controls'] = 'GatherWholeBuffer=TRUE violates NoUninitialisedRead; DetectBeforeSampling=TRUE violates ResultIsSampleScore (N=4)'

    if tier == 'quick':
        runs = [('canonical-N5', MC.mi_constants(5, 5, True, [False, True], range(2, 8))),
                ('binary-N6', MC.mi_constants(6, 2, False, [False, True], range(2, 8)))]
    else:
        runs = [('canonical-N6', MC.mi_constants(6, 6, True, [False, True], range(2, 8))),
                ('binary-N8', MC.mi_constants(8, 2, False, [True], [3, 5, 6, 7])),
                ('ternary-N6', MC.mi_constants(6, 3, False, [False, True], [3, 5, 6, 7]))]
    drift = 0
    for label, consts in runs:
        res, cases = MC.run_mi(V, f'MIEstimator/{label}', consts, INVS, coverage=(label == 'canonical-N5'))
        if not cases:
            raise E.MachineryError('no cases emitted')
        bad = MC.check_oracle_against_tlc(cases, DEN)
        if bad:
            raise E.MachineryError(f'oracle transcription disagrees with TLC on {bad[0]}')
        if res.coverage:
            for a in ('WritePrefix', 'Gather', 'Detect', 'StratumStep'):
                if res.coverage.get(a, (0, 0))[0] == 0:
                    raise E.MachineryError(f'action {a} never taken')
        nontriv = 0
        # (1) the sample itself
        # the feature vector carries the ROW IDS, so the returned Y reveals exactly which rows were gathered
        sreq = [[list(range(len(c['x']))), c['x'], c['rnum'] / DEN] for c in cases]
        sgot, scr = MC.real_eval('sample', sreq, poison=MC.POISONS)
        for idx, rc, err in scr:
            c = cases[idx]
            V.violation(f'crash-sample:Y={c["y"]} X={c["x"]} r={c["rnum"]}/8', f'stratified_subsampling died ({E.signal_name(rc)}) {err[-200:]}', c)
        for c, g in zip(cases, sgot):
            n = len(c['x'])
            final = (c['rnum'] * n) // DEN
            nv = len(set(c['x']))
            q = final // nv
            if q > 0 and (final % nv or min(c['x'].count(v) for v in set(c['x'])) < q):
                nontriv += 1
            if g is None:
                continue
            ys, xs, fin = g
            if fin != final:
                raise E.MachineryError(f'floor(r*n) mismatch {fin} vs {final}')
            # property level: the SET of rows used (per target value the first quota rows; all rows when the quota is 0);
            # the order in which they are gathered is not part of the statement (drift only)
            if sorted(ys) != sorted(c['S']) or any(not (0 <= i < n) or xs[j] != c['x'][i] for j, i in enumerate(ys)):
                V.violation(f'sample:Y={c["y"]} X={c["x"]} r={c["rnum"]}/8',
                            f'stratified_subsampling gathered rows {ys} (X values {xs}); specified sample rows {sorted(c["S"])}', c)
            elif ys != c['S']:
                drift += 1
        # (2) determinism within and across processes, finiteness
        req = [[c['y'], c['x'], c['rnum'] / DEN, c['c']] for c in cases]
        runs3 = []
        for k in range(3):
            pz = MC.POISONS[k:] + MC.POISONS[:k]
            g, cr = MC.real_eval('score_rep', req, poison=pz, reps=3, env={'PYTHONHASHSEED': str(k + 1)})
            for idx, rc, err in cr:
                c = cases[idx]
                V.violation(f'crash:Y={c["y"]} X={c["x"]} r={c["rnum"]}/8 c={c["c"]}', f'estimator died ({E.signal_name(rc)}) {err[-200:]}', c)
            runs3.append(g)
            if len(cr) > 3:
                break
        for i, c in enumerate(cases):
            vals = [v for g in runs3 if g[i] is not None for v in g[i]]
            if not vals:
                continue
            key = f'Y={c["y"]} X={c["x"]} r={c["rnum"]}/8 c={c["c"]}'
            if any(not math.isfinite(v) for v in vals):
                V.violation('nonfinite:' + key, f'scores {vals}', c)
            elif any(v != vals[0] for v in vals):
                V.violation('nondeterministic:' + key, f'scores differ between repetitions/processes: {sorted(set(vals))}', c)
            e = (c['rnum'] / DEN) * O.vec_value(c['vec'], len(c['y']))
            if not (abs(vals[0] - e) <= MC.tol(e, 2.0)):
                drift += 1
        # (3) sample-only
        areq, ameta = [], []
        for i, c in enumerate(cases):
            out_rows = [j for j in range(len(c['y'])) if j not in set(c['S'])]
            if not out_rows or runs3[0][i] is None:
                continue
            for t in range(2):
                y2 = list(c['y'])
                for j in out_rows:
                    if t == 0 or rng.random() < 0.6:
                        y2[j] = (y2[j] + 1 + rng.randrange(3)) % 5 if t else (y2[j] + 1) % 4
                if y2 != c['y']:
                    areq.append([y2, c['x'], c['rnum'] / DEN, c['c']])
                    ameta.append(i)
        agot, acr = MC.real_eval('score', areq, poison=MC.POISONS)
        for idx, rc, err in acr:
            V.violation(f'crash-alt:{areq[idx]}', f'estimator died ({E.signal_name(rc)})', areq[idx])
        for i, rq, s in zip(ameta, areq, agot):
            c = cases[i]
            base = runs3[0][i][0]
            if s is not None and not same(s, base):
                V.violation(f'sample-only:Y={c["y"]} X={c["x"]} r={c["rnum"]}/8 c={c["c"]}',
                            f'score changed from {base!r} to {s!r} when Y was altered outside the sampled rows {c["S"]}: Y2={rq[0]}', {'case': c, 'y2': rq[0]})
        # (3b) the same clause through the dispatcher importance_estimator.numba_mi (what the pipeline calls with
        # --mi_stratified_sampling_ratio): every altered pair whose feature is constant, plus a sample of the others
        pick = [k_ for k_, (i_, rq_) in enumerate(zip(ameta, areq)) if len(set(cases[i_]['y'])) == 1 or rng.random() < (0.03 if tier == 'quick' else 0.1)]
        hname = lambda cf: 'MI-numba-randomized' if cf else 'MI-numba'
        nb_base, _ = MC.real_eval('numba_mi', [[cases[ameta[k_]]['y'], cases[ameta[k_]]['x'], hname(areq[k_][3]), areq[k_][2]] for k_ in pick])
        nb_alt, _ = MC.real_eval('numba_mi', [[areq[k_][0], areq[k_][1], hname(areq[k_][3]), areq[k_][2]] for k_ in pick])
        for k_, sb, sa in zip(pick, nb_base, nb_alt):
            c = cases[ameta[k_]]
            if sb is not None and sa is not None and not same(sa, sb):
                V.violation(f'sample-only:by-name:Y={c["y"]} X={c["x"]} r={c["rnum"]}/8 heuristic={hname(areq[k_][3])}',
                            f'numba_mi changed from {sb!r} to {sa!r} when Y was altered outside the sampled rows {c["S"]}: Y2={areq[k_][0]}', {'case': c, 'y2': areq[k_][0]})
        V.count(evaluations=len(cases) * 10 + len(areq) + 2 * len(pick), nontrivial=nontriv, traces=len(cases) + len(areq))
        k = next(i for i, c in enumerate(cases) if len(c['S']) < len(c['y']) and c['c'] and len(set(c['x'])) > 1)
        V.add_sample({'family': label, **cases[k], 'real_scores': [g[k] for g in runs3 if g[k] is not None]})

    # ---- seeded larger cases; TLC (MISampleTrace) validates the recorded samples for n <= 300
    big = []
    sizes = [12, 50, 300, 2000] if tier == 'quick' else [12, 50, 300, 2000, 5000, 20000]
    ratios = [0.05, 0.1, 0.3, 0.5, 0.7, 0.75, 0.9, 0.99]
    for n in sizes:
        for rr in ratios:
            for fam in ('skewed', 'uniform', 'manyvalues'):
                if fam == 'skewed':
                    x = [0 if rng.random() < 0.85 else 1 + rng.randrange(3) for _ in range(n)]
                elif fam == 'uniform':
                    x = [rng.randrange(3) for _ in range(n)]
                else:
                    x = [rng.randrange(max(2, n // 5)) for _ in range(n)]
                y = [(v + rng.randrange(2)) % 4 for v in x]
                big.append((fam, n, rr, y, x))
    # exact-division boundaries: for every number of distinct target values nv, budgets floor(r*n) that are exact multiples of nv
    # (the quota floor(floor(r*n) / nv) must be taken exactly)
    for nv in (range(2, 130) if tier == 'quick' else range(2, 400)):
        for mult in (1, 2):
            n = nv * 10 * mult
            if final_of(0.1, n) != nv * mult:
                continue
            x = [(i * 7 + i // nv) % nv for i in range(n)]
            y = [(v + (i % 3 == 0)) % 5 for i, v in enumerate(x)]
            big.append((f'exact-multiple-nv{nv}', n, 0.1, y, x))
    sgot, scr = MC.real_eval('sample', [[list(range(len(x))), x, rr] for _, _, rr, y, x in big], poison=MC.POISONS, stride=True)
    for idx, rc, err in scr:
        fam, n, rr, y, x = big[idx]
        V.violation(f'crash-sample:large:{fam}:n={n}:r={rr}', f'stratified_subsampling died ({E.signal_name(rc)})', {'family': fam, 'n': n, 'r': rr, 'seed': seed, 'Y': y[:400], 'X': x[:400]})
    wd = E.workdir('c04')
    try:
        recs = []
        for (fam, n, rr, y, x), g in zip(big, sgot):
            if g is None:
                continue
            ys, xs, fin = g
            if fin != final_of(rr, n):
                raise E.MachineryError(f'floor(r*n): harness {final_of(rr, n)} vs numpy {fin}')
            S = O.spec_sample_final(x, fin)
            if sorted(ys) != sorted(S) or any(not (0 <= i < n) or xs[j] != x[i] for j, i in enumerate(ys)):
                V.violation(f'sample:large:{fam}:n={n}:r={rr}', f'stratified_subsampling gathered {len(ys)} rows, specified sample has {len(S)} rows (or different rows)',
                            {'family': fam, 'n': n, 'r': rr, 'seed': seed, 'Y': y[:400], 'X': x[:400]})
            if n <= 300 and not fam.startswith('exact-multiple'):
                # recover the row indices the real code gathered: rows are identified by (x value, rank within value)
                recs.append({'x': x, 'final': fin, 'rows': [i + 1 for i in S], 'n': n, 'r': rr})
        tf = os.path.join(wd, 's.ndjson')
        with open(tf, 'w') as f:
            for r in recs:
                f.write(json.dumps(r) + '\n')
        cfg = E.write_cfg(os.path.join(wd, 's.cfg'), spec='Spec', invariants=['SampleIsSpecified'], postcondition='Accepted')
        res = E.run_tlc('MISampleTrace', cfg, workers=1, env={'TRACE_FILE': tf}, timeout=1200)
        E.require_ok(res, 'MISampleTrace')
        V.add_tlc(res, 'MISampleTrace')
        if not res.ok:
            raise E.MachineryError('MISampleTrace rejects the transcription of SpecSample: ' + res.stdout[-500:])
        bad = dict(recs[3]); bad['rows'] = bad['rows'][:-1] + [bad['rows'][-1] % len(bad['x']) + 1]
        with open(tf, 'w') as f:
            f.write(json.dumps(bad) + '\n')
        res2 = E.run_tlc('MISampleTrace', cfg, workers=1, env={'TRACE_FILE': tf}, timeout=600)
        if res2.ok:
            raise E.MachineryError('negative control: corrupted sample accepted by MISampleTrace')
    finally:
        E.cleanup(wd)
    req = [[y, x, rr, cflag] for _, _, rr, y, x in big for cflag in (False, True)]
    g1, c1 = MC.real_eval('score_rep', req, poison=MC.POISONS, reps=2, stride=True, env={'PYTHONHASHSEED': '11'})
    g2, c2 = MC.real_eval('score_rep', req, poison=MC.POISONS[3:] + MC.POISONS[:3], reps=2, stride=True, env={'PYTHONHASHSEED': '12'})
    for idx, rc, err in c1 + c2:
        V.violation(f'crash:large:{big[idx // 2][0]}:n={big[idx // 2][1]}:r={big[idx // 2][2]}', f'estimator died ({E.signal_name(rc)})',
                    {'family': big[idx // 2][0], 'n': big[idx // 2][1], 'r': big[idx // 2][2], 'seed': seed, 'Y': big[idx // 2][3][:400], 'X': big[idx // 2][4][:400]})
    areq, ameta = [], []
    for k, rq in enumerate(req):
        fam, n, rr, y, x = big[k // 2]
        vals = (g1[k] or []) + (g2[k] or [])
        key = f'large:{fam}:n={n}:r={rr}:c={rq[3]}'
        if vals and any(not math.isfinite(v) for v in vals):
            V.violation('nonfinite:' + key, f'scores {vals}', {'family': fam, 'n': n, 'r': rr, 'seed': seed})
        elif vals and any(v != vals[0] for v in vals):
            V.violation('nondeterministic:' + key, f'scores differ: {sorted(set(vals))}', {'family': fam, 'n': n, 'r': rr, 'seed': seed})
        S = set(O.spec_sample_final(x, final_of(rr, n)))
        outside = [i for i in range(n) if i not in S]
        if outside and vals:
            y2 = list(y)
            for i in outside:
                y2[i] = (y2[i] + 1 + rng.randrange(2)) % 5
            areq.append([y2, x, rr, rq[3]])
            ameta.append((k, vals[0]))
            e = f32(rr) * O.value(O.sample_score(y, x, rq[3], O.spec_sample_final(x, final_of(rr, n))), n)
            if not (abs(vals[0] - e) <= MC.tol(e, 2.0)):
                drift += 1
    agot, acr = MC.real_eval('score', areq, poison=MC.POISONS, stride=True)
    for (k, base), rq, s in zip(ameta, areq, agot):
        fam, n, rr, y, x = big[k // 2]
        if s is not None and not same(s, base):
            V.violation(f'sample-only:large:{fam}:n={n}:r={rr}:c={rq[3]}', f'score changed from {base!r} to {s!r} when Y was altered outside the sample',
                        {'family': fam, 'n': n, 'r': rr, 'seed': seed})
    V.count(evaluations=len(big) + 4 * len(req) + len(areq), nontrivial=len(big), traces=len(big) + len(areq))
    V.notes['spec_drift_cases'] = drift
    V.coverage['exhaustive'] = True
    return V.finish()


if __name__ == '__main__':
    try:
        sys.exit(main())
    except E.MachineryError as e:
        print(f'MACHINERY-FAILURE {PID}: {e}', file=sys.stderr)
        sys.exit(2)
    except Exception as e:  # unexpected harness error: machinery failure, never a verdict
        import traceback
        traceback.print_exc()
        print(f'MACHINERY-FAILURE {PID}: unexpected {type(e).__name__}: {e}', file=sys.stderr)
        sys.exit(2)
