"""C19 - synthetic categorical data respects its declared shape, domains and seed."""
from __future__ import annotations

import csv
import json
import os
import random
import sys

sys.path.insert(0, os.path.dirname(os.path.dirname(os.path.abspath(__file__))))
from harness import engine as E
from harness import pipe_common as PC

PID = 'C19'


def attrs_of(kind, e):
    if kind == 'card':
        return 5 + e, list(range(0, 5 + e))
    if kind == 'list':
        v = [100 * e + 1, 100 * e + 5, 100 * e + 9]
        return v, v
    v = [200 * e + 1, 200 * e + 2]
    return [v, [0.3, 0.7]], v


def validate(wd, recs, name='g'):
    tf = os.path.join(wd, name + '.ndjson')
    with open(tf, 'w') as f:
        for r in recs:
            f.write(json.dumps(r) + '\n')
    cfg = E.write_cfg(os.path.join(wd, name + '.cfg'), spec='Spec', postcondition='Accepted')
    res = E.run_tlc('TraceGenerators', cfg, workers=1, env={'TRACE_FILE': tf}, timeout=900)
    E.require_ok(res, 'TraceGenerators')
    return res


def main():
    tier, seed, replay = E.tier_seed()
    V = E.Verdict(PID, tier, seed)
    rng = random.Random(seed * 334214459 + 19)
    V.coverage['rule'] = ('TLC: GeneratorSession.tla (every session of <= 5 calls on one instance: generate_data with 2 seeds x 2 argument sets, derived-structure calls and foreign RNG use in between; SameSeedSameData) replayed on one real instance and compared with fresh instances; Generators.tla (part "data") - generate_data as a cursor machine (FillGap / PlaceDeclared / FillRest) over every structure of <= 2 (thorough 3) entries '
                          'mixing single indices and index lists with strictly increasing indices below n_features (the form the cursor supports): ShapeExact, DeclaredAtDeclaredIndex, '
                          'OthersDefault.  Every structure is replayed through the real generate_data with pairwise distinguishable domains (cardinality / value list / value+frequency '
                          'pair per entry) and ensure_rep so that the value set of a column identifies which entry produced it; the recorded data sets (also the boundary sweep '
                          'n_samples = |domain|-1, |domain|, |domain|+1, random-draw domains, both ensure_rep) are validated by TraceGenerators.tla (ValuesInDomain, '
                          'AllRepresentedWhenPossible, ShapeExact, SeedDeterminism); naive generator and the data_generator CLI task.  non-trivial = distinct structures with >= 1 entry')
    V.assumptions += ['structure indices strictly increasing and below n_features (precondition: the only form in the project docs/tests)']
    NF = 4 if tier == 'quick' else 5
    wd = E.workdir('c19')
    try:
        cfg = E.write_cfg(os.path.join(wd, 'mc.cfg'), constants={'Part': '"data"', 'NFeatures': NF, 'MaxEntries': 2 if tier == 'quick' else 3, 'AttrKinds': '{"card","list","listfreq"}',
                                                                  'NSource': 3, 'MaxCalls': 1, 'DupInfoOneShort': 'FALSE'},
                          invariants=['ShapeExact', 'DeclaredAtDeclaredIndex', 'OthersDefault', 'EmitData'])
        res = E.run_tlc('Generators', cfg, timeout=1200)
        E.require_ok(res, 'Generators/data')
        V.add_tlc(res, 'Generators/data')
        V.tlc_violation(res, 'Generators/data')
        cases = [(list(t[1]), list(t[2])) for t in E.extract_tuples(res.stdout, 'DATA')]
        if not cases:
            raise E.MachineryError('no structures emitted')
        if tier == 'quick' and len(cases) > 1500:
            cases = rng.sample(cases, 1500)
        items, metas = [], []
        NS = 12
        for struct, placed in cases:
            st = []
            doms = {}
            for e, ent in enumerate(struct, start=1):
                attrs, dom = attrs_of(ent['attr'], e)
                doms[e] = dom
                st.append([ent['idx'][0] if ent['single'] else list(ent['idx']), attrs])
            items.append({'kw': {'n_features': NF, 'n_samples': NS, 'cardinality': 3, 'structure': st or None, 'ensure_rep': True, 'seed': rng.randrange(10 ** 6)}})
            metas.append((struct, placed, doms))
        got = PC.pipe_eval([{'op': 'gen_data', 'items': items[i:i + 200]} for i in range(0, len(items), 200)], modules=['gen_ops'])
        flat = []
        for r in got:
            if not r or 'ok' not in r:
                raise E.MachineryError('gen_data failed: ' + PC.failure_text(r))
            flat += r['ok']
        recs, keys = [], []
        for (struct, placed, doms), it, ob in zip(metas, items, flat):
            key = f'structure={json.dumps(it["kw"]["structure"])} n_features={NF} n_samples={NS} seed={it["kw"]["seed"]}'
            if 'error' in ob:
                V.violation('raises:' + key, ob['error'], it)
                continue
            cols = []
            for j, (kind, e) in enumerate(placed):
                dom = [0, 1, 2] if kind == 'default' else doms[e]
                cols.append({'vals': ob['cols'][j] if j < len(ob['cols']) else [], 'domain': dom, 'lo': 0, 'hi': 0, 'card': 0, 'ensure': True})
            recs.append({'kind': 'data', 'nf': NF, 'ns': NS, 'shape': ob['shape'], 'int32': ob['int32'], 'cols': cols, 'same_again': ob['same_again']})
            keys.append((key, it, ob, placed, doms))
        res = validate(wd, recs)
        V.add_tlc(res, 'TraceGenerators/structures')
        rest_r, rest_k = recs, keys
        guard = 0
        while not res.ok and guard < 8:
            guard += 1
            i = res.depth - 1
            if not 0 <= i < len(rest_r):
                break
            key, it, ob, placed, doms = rest_k[i]
            bad = [j for j, c in enumerate(rest_r[i]['cols']) if set(c['vals']) != set(c['domain'])]
            V.violation('placement:' + key, f'columns {bad} do not hold the values of the feature declared for them (column value sets {ob["cols"]}; declared placement {placed}); shape {ob["shape"]} int32={ob["int32"]} reproducible={ob["same_again"]}', it)
            rest_r, rest_k = rest_r[i + 1:], rest_k[i + 1:]
            if not rest_r:
                break
            res = validate(wd, rest_r)
        V.count(evaluations=len(cases), nontrivial=sum(1 for s, _ in cases if s), traces=len(recs))
        V.add_sample({'structure': items[len(items) // 2]['kw']['structure'], 'placed': cases[len(cases) // 2][1], 'column_value_sets': flat[len(items) // 2].get('cols')})

        # ---- boundary sweep and random-draw domains
        items, metas = [], []
        for D in (1, 2, 3, 5, 8):
            for ns in (D - 1, D, D + 1, 3 * D):
                if ns < 1:
                    continue
                for ens in (True, False):
                    # D = 1: a one-element value list (a constant feature) is still a value LIST, not a cardinality
                    for kind in (('default', 'card', 'list', 'random', 'mixed') if D > 1 else ('list',)):
                        sd = rng.randrange(10 ** 6)
                        if kind == 'default':
                            kw = {'n_features': 2, 'n_samples': ns, 'cardinality': D, 'ensure_rep': ens, 'seed': sd}
                            cols = [{'domain': list(range(D))}] * 2
                        elif kind == 'card':
                            kw = {'n_features': 2, 'n_samples': ns, 'cardinality': 2, 'structure': [[1, D]], 'ensure_rep': ens, 'seed': sd, 'low': 4}
                            cols = [{'domain': [4, 5]}, {'domain': list(range(4, 4 + D))}]
                        elif kind == 'list':
                            vals = [7 * k + 1 for k in range(D)]
                            kw = {'n_features': 2, 'n_samples': ns, 'cardinality': 2, 'structure': [[[0, 1], vals]], 'ensure_rep': ens, 'seed': sd}
                            if rng.random() < 0.5:
                                kw.update(random_values=True, low=100, high=1000)      # an explicit value list stays the domain also when the OTHER features draw random domains
                            cols = [{'domain': vals}] * 2
                        elif kind == 'mixed':
                            # the data-set-wide default domain does NOT fit into n_samples, the per-feature domains of the structure
                            # may: representation is decided per feature
                            vals = [7 * k + 1 for k in range(D)]
                            big = ns + 1 + rng.randrange(4)
                            kw = {'n_features': 3, 'n_samples': ns, 'cardinality': big, 'structure': [[1, D], [2, vals]], 'ensure_rep': ens, 'seed': sd, 'low': 4}
                            cols = [{'domain': list(range(4, 4 + big))}, {'domain': list(range(4, 4 + D))}, {'domain': vals}]
                        else:
                            lo_, hi_ = rng.choice([(10, 10 + 3 * D), (-60, 0), (-3 * D, -1), (0, 3 * D), (-D, D)])       # bounds at and across zero
                            kw = {'n_features': 2, 'n_samples': ns, 'cardinality': D, 'ensure_rep': ens, 'seed': sd, 'random_values': True, 'low': lo_, 'high': hi_}
                            cols = [{'domain': [], 'lo': lo_, 'hi': hi_, 'card': D}] * 2
                        items.append({'kw': kw})
                        metas.append((kind, D, ns, ens, cols))
        got = PC.pipe_eval([{'op': 'gen_data', 'items': items}], modules=['gen_ops'])[0]
        if not got or 'ok' not in got:
            raise E.MachineryError('gen_data sweep failed: ' + PC.failure_text(got))
        recs, keys = [], []
        for (kind, D, ns, ens, cols), it, ob in zip(metas, items, got['ok']):
            key = f'{kind} |domain|={D} n_samples={ns} ensure_rep={ens} seed={it["kw"]["seed"]}'
            if 'error' in ob:
                V.violation('raises:' + key, ob['error'], it)
                continue
            recs.append({'kind': 'data', 'nf': it['kw']['n_features'], 'ns': ns, 'shape': ob['shape'], 'int32': ob['int32'], 'same_again': ob['same_again'],
                         'cols': [dict({'lo': 0, 'hi': 0, 'card': 0}, **c, vals=ob['cols'][j], ensure=ens) for j, c in enumerate(cols)]})
            keys.append((key, it, ob))
        res = validate(wd, recs, 'sweep')
        V.add_tlc(res, 'TraceGenerators/sweep')
        rest_r, rest_k = recs, keys
        guard = 0
        while not res.ok and guard < 12:
            guard += 1
            i = res.depth - 1
            if not 0 <= i < len(rest_r):
                break
            key, it, ob = rest_k[i]
            V.violation('domain:' + key, f'column value sets {ob["cols"]} (shape {ob["shape"]}): a value outside the declared domain, or a domain value missing although ensure_rep is set and the sample count allows it', it)
            rest_r, rest_k = rest_r[i + 1:], rest_k[i + 1:]
            if not rest_r:
                break
            res = validate(wd, rest_r, 'sweep')
        V.count(evaluations=len(items), nontrivial=len(items), traces=len(recs))
        # negative control
        bad = dict(recs[0], cols=[dict(recs[0]['cols'][0], vals=recs[0]['cols'][0]['vals'] + [99999])] + recs[0]['cols'][1:])
        if validate(wd, [bad], 'neg').ok:
            raise E.MachineryError('negative control: out-of-domain value accepted')
        V.notes['negative_control'] = 'TraceGenerators rejects a data record with a value outside the declared domain'

        # ---- seed determinism across processes
        kw = {'n_features': 6, 'n_samples': 40, 'cardinality': 4, 'structure': [[1, 7], [[3, 4], [11, 12, 13]]], 'ensure_rep': True, 'seed': 77 + seed}
        a = PC.pipe_eval([{'op': 'gen_data', 'items': [{'kw': kw}]}], modules=['gen_ops'], env={'PYTHONHASHSEED': '5'})[0]
        b = PC.pipe_eval([{'op': 'gen_data', 'items': [{'kw': kw}]}], modules=['gen_ops'], env={'PYTHONHASHSEED': '6'})[0]
        if not (a and b and 'ok' in a and 'ok' in b and a['ok'][0].get('digest') == b['ok'][0].get('digest')):
            V.violation('seed:across-processes', f'the same seed and arguments gave different data sets in two processes: {a} vs {b}', {'kw': kw})

        # ---- sessions on one instance (GeneratorSession.tla): the result of generate_data is a function of (seed, arguments) only
        wds = E.workdir('c19s')
        try:
            SC_ = {'Seeds': '{1, 2}', 'ArgSets': '{"A", "B", "C", "D"}', 'MaxSteps': 4 if tier == 'quick' else 5}
            cfgd = E.write_cfg(os.path.join(wds, 'dev.cfg'), constants=dict(SC_, ReseedOnlyOnChange='TRUE'), invariants=['SameSeedSameData', 'FreshStart'])
            rd = E.run_tlc('GeneratorSession', cfgd, timeout=300)
            E.require_ok(rd, 'GeneratorSession/deviation')
            if rd.violated not in ('SameSeedSameData', 'FreshStart'):
                raise E.MachineryError('deviation control ReseedOnlyOnChange did not violate the seed clause')
            V.notes['deviation_control_session'] = 'ReseedOnlyOnChange=TRUE (re-seed only when the seed differs from the last one) violates ' + rd.violated
            cfgs = E.write_cfg(os.path.join(wds, 'mc.cfg'), constants=dict(SC_, ReseedOnlyOnChange='FALSE'), invariants=['SameSeedSameData', 'FreshStart', 'Emit'])
            rs = E.run_tlc('GeneratorSession', cfgs, timeout=600, coverage=True)
            E.require_ok(rs, 'GeneratorSession')
            V.add_tlc(rs, 'GeneratorSession')
            V.tlc_violation(rs, 'GeneratorSession')
            for a_ in ('Generate', 'Derive', 'Foreign'):
                if rs.coverage and rs.coverage.get(a_, (0, 0))[0] == 0:
                    raise E.MachineryError(f'action {a_} never taken')
            sessions = [[list(st) for st in t[1]] for t in E.extract_tuples(rs.stdout, 'SESSION')]
        finally:
            E.cleanup(wds)
        if not sessions:
            raise E.MachineryError('no sessions emitted')
        argsets = {'A': {'n_features': 5, 'n_samples': 30, 'cardinality': 4, 'structure': [[1, 7], [[2, 3], [11, 12, 13]]], 'ensure_rep': True},
                   'B': {'n_features': 4, 'n_samples': 25, 'cardinality': 6, 'structure': [[0, [5, 6, 9]], [2, [[1, 2], [0.3, 0.7]]]], 'ensure_rep': False},
                   # random value domains over two intervals of the same width
                   'C': {'n_features': 3, 'n_samples': 30, 'cardinality': 5, 'random_values': True, 'low': 0, 'high': 200, 'ensure_rep': True},
                   'D': {'n_features': 3, 'n_samples': 30, 'cardinality': 5, 'random_values': True, 'low': 1000, 'high': 1200, 'ensure_rep': True, 'structure': [[1, 4]]}}
        seeds = {'1': 42 + seed, '2': 7}
        jobs_s = [{'op': 'gen_session', 'argsets': argsets, 'seeds': seeds, 'sessions': sessions[i:i + 150]} for i in range(0, len(sessions), 150)]
        got_s = PC.pipe_eval(jobs_s, modules=['gen_ops'])
        nsess = 0
        for jb, r_ in zip(jobs_s, got_s):
            if r_ is None or 'ok' not in r_:
                V.violation('raises:session', f'generator session failed: {PC.failure_text(r_)}', {'sessions': jb['sessions'][:2]})
                continue
            fresh = r_['ok']['fresh']
            for sess, ob in zip(jb['sessions'], r_['ok']['sessions']):
                nsess += 1
                key = f'seed:session={sess}'
                if 'error' in ob:
                    V.violation('raises:' + key, f'session raised {ob["error"]}', {'session': sess})
                    continue
                for a_, sid, dg in ob['digests']:
                    if dg != fresh[f'{a_}/{sid}']:
                        V.violation(key, f'generate_data(args {a_}, seed {seeds[sid]}) inside the session gave data set digest {dg}, a fresh instance gives {fresh[a_ + "/" + sid]}: the same seed and arguments do not reproduce the same data set', {'session': sess, 'argsets': argsets, 'seeds': seeds})
                        break
        V.count(evaluations=nsess, nontrivial=nsess, traces=nsess)
        V.add_sample({'session': sessions[len(sessions) // 2]})

        # ---- naive generator and the data_generator task
        nv = PC.pipe_eval([{'op': 'naive', 'sizes': [[31, 60], [100, 3000], [40, 1]]}], modules=['gen_ops'])[0]
        if not nv or 'ok' not in nv:
            V.violation('raises:naive', f'generate_random_matrix failed: {PC.failure_text(nv)}', {})
        else:
            for (nf, size), ob in zip([[31, 60], [100, 3000], [40, 1]], nv['ok']):
                if ob['shape'] != [size, nf] or ob['tshape'] != [size] or not ob['functional'] or not set(ob['labels']) <= {0, 1}:
                    V.violation(f'naive:features={nf} size={size}', f'naive generator output {ob}: wrong shape or the label is not a function of the needle feature', {'nf': nf, 'size': size})
        sub = os.path.join(wd, 'cli')
        os.makedirs(sub)
        rc, err = PC.run_cli(dict(task='data_generator', num_synthetic_features=35, num_synthetic_rows=400, output_synthetic_df_name='gen_ds'), sub)
        p = os.path.join(sub, 'gen_ds', 'data.csv')
        if rc != 0 or not os.path.exists(p):
            V.violation('cli-failed:data_generator', f'exit {rc}: {err[-300:]}', {})
        else:
            with open(p, newline='') as f:
                rows = list(csv.reader(f))
            if rows[0] != [f'f{i}' for i in range(35)] + ['label'] or len(rows) != 401 or any(len(r_) != 36 for r_ in rows):
                V.violation('cli:data_generator-shape', f'data.csv has header {rows[0][:3]}.. and {len(rows) - 1} rows', {})
            fn = {}
            if any(fn.setdefault(r_[30], r_[35]) != r_[35] for r_ in rows[1:]):
                V.violation('cli:data_generator-label', 'label is not a function of the needle feature f30', {})
        V.count(evaluations=5, nontrivial=3, traces=5)
    finally:
        E.cleanup(wd)
    V.coverage['exhaustive'] = True
    return V.finish()


if __name__ == '__main__':
    try:
        sys.exit(main())
    except E.MachineryError as e:
        print(f'MACHINERY-FAILURE {PID}: {e}', file=sys.stderr)
        sys.exit(2)
    except Exception as e:  # unexpected harness error: machinery failure, never a verdict
        import traceback
        traceback.print_exc()
        print(f'MACHINERY-FAILURE {PID}: unexpected {type(e).__name__}: {e}', file=sys.stderr)
        sys.exit(2)
