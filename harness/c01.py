"""C01 - plain estimator equals the plug-in Shannon mutual information."""
from __future__ import annotations

import json
import os
import random
import sys

sys.path.insert(0, os.path.dirname(os.path.dirname(os.path.abspath(__file__))))
from harness import engine as E
from harness import mi_common as MC
from harness import mi_oracle as O

PID = 'C01'
INVS = ['PlainIsPlugin', 'Symmetric', 'ConstantZero', 'SelfIsEntropy', 'PluginIsEntropyDifference',
        'ResultIsSpec', 'ShortcutExact']


def families(rng, n):
    """Seeded structure families for the large-n part (Y, X as lists of ints)."""
    def zipf(card):
        w = [1.0 / (i + 1) ** 1.3 for i in range(card)]
        return rng.choices(range(card), weights=w, k=n)
    fams = []
    for card in (2, 7, 50, min(1500, max(2, n // 3))):
        fams.append(('uniform%d' % card, [rng.randrange(card) for _ in range(n)], [rng.randrange(card) for _ in range(n)]))
    a = zipf(30)
    fams.append(('skewed-dependent', a, [(v * 7 + (rng.random() < 0.1)) % 11 for v in a]))
    fams.append(('skewed-indep', zipf(100), zipf(3)))
    fams.append(('all-distinct-vs-binary', list(range(n)), [rng.randrange(2) for _ in range(n)]))
    fams.append(('binary-vs-all-distinct', [rng.randrange(2) for _ in range(n)], rng.sample(range(n), n)))
    fams.append(('constant-y', [3] * n, [rng.randrange(5) for _ in range(n)]))
    fams.append(('constant-x', [rng.randrange(5) for _ in range(n)], [0] * n))
    fams.append(('both-distinct', list(range(n)), list(range(n))[::-1]))
    sp = [rng.randrange(2 ** 20) for _ in range(6)]
    fams.append(('sparse-codes', [sp[rng.randrange(6)] for _ in range(n)], [sp[rng.randrange(3)] for _ in range(n)]))
    # many singleton strata: X mostly distinct plus one heavy value
    xs = [i if rng.random() < 0.7 else n + 1 for i in range(n)]
    fams.append(('singleton-strata', [rng.randrange(4) for _ in range(n)], xs))
    fams.append(('self', a, list(a)))
    return fams


def main():
    tier, seed, replay = E.tier_seed()
    V = E.Verdict(PID, tier, seed)
    rng = random.Random(seed * 7919 + 1)
    V.coverage['rule'] = ('TLC enumerates every ordered pair (Y,X): raw codes [1..N -> 0..K-1] and canonical '
                          '(restricted-growth) vectors = all pairs of set partitions of the rows; each state is replayed into '
                          'the real mutual_info_estimator_numba(Y,X,1.0,False) and compared with the exact prime-vector '
                          'result; non-trivial = pairs where neither vector is constant and Y # X, counted distinct; '
                          'plus seeded large-n families with the cross-checked transcription of NPlugin as oracle')
    V.assumptions += ['float comparison tolerance 3e-6*(1+|E|+H) (float32 result)',
                      'logs of primes are linearly independent over Q (exactness of the vector encoding)',
                      'the Python transcription of NPlugin is trusted only as far as TLC confirmed it (every enumerated state + MITrace records)']

    runs = [('raw', MC.mi_constants(5 if tier == 'quick' else 6, 3, False, [False], [8])),
            ('canonical', MC.mi_constants(6 if tier == 'quick' else 7, 6 if tier == 'quick' else 7, True, [False], [8]))]
    allcases = []
    for label, consts in runs:
        res, cases = MC.run_mi(V, f'MIEstimator/{label}', consts, INVS, coverage=(label == 'raw' and tier == 'quick'))
        if not cases:
            raise E.MachineryError('no cases emitted')
        bad = MC.check_oracle_against_tlc(cases)
        if bad:
            raise E.MachineryError(f'oracle transcription disagrees with TLC on {bad[0]}')
        allcases.append((label, cases))
        for a in ('ChooseY', 'ChooseX', 'Enter', 'Detect', 'StratumStep', 'Return'):
            if res.coverage and res.coverage.get(a, (0, 0))[0] == 0:
                raise E.MachineryError(f'action {a} never taken in {label}')

    # ---- binding A: replay every enumerated state into the real code
    for label, cases in allcases:
        req = [[c['y'], c['x'], 1.0, False] for c in cases]
        got, crashes = MC.real_eval('score', req)
        for idx, rc, err in crashes:
            V.violation(f'crash:{label}:{cases[idx]["y"]}|{cases[idx]["x"]}',
                        f'estimator process died ({E.signal_name(rc)}) on Y={cases[idx]["y"]} X={cases[idx]["x"]}: {err[-300:]}', cases[idx])
        index = {}
        nontriv = 0
        for c, s in zip(cases, got):
            if s is None:
                continue
            n = len(c['y'])
            e = O.vec_value(c['vec'], n)
            hy, hx = O.entropy(c['y']), O.entropy(c['x'])
            index[(tuple(c['y']), tuple(c['x']))] = s
            if len(set(c['y'])) > 1 and len(set(c['x'])) > 1 and c['y'] != c['x']:
                nontriv += 1
            key = f'{label}:Y={c["y"]} X={c["x"]}'
            if not (abs(s - e) <= MC.tol(e, hy)):
                V.violation('plugin:' + key, f'score {s!r} != plug-in MI {e!r} (spec vector {c["vec"]})', c)
            elif s < -MC.tol(0, hy):
                V.violation('negative:' + key, f'score {s!r} meaningfully negative', c)
            elif s > min(hy, hx) + MC.tol(min(hy, hx), hy):
                V.violation('bound:' + key, f'score {s!r} exceeds min entropy {min(hy, hx)!r}', c)
            if c['y'] == c['x'] and not (abs(s - hy) <= MC.tol(hy, hy)):
                V.violation('self:' + key, f'self score {s!r} != entropy {hy!r}', c)
            if (len(set(c['y'])) == 1 or len(set(c['x'])) == 1) and not (abs(s) <= MC.tol(0, hy + hx)):
                V.violation('constant:' + key, f'score {s!r} != 0 with a constant vector', c)
        for (yy, xx), s in index.items():
            s2 = index.get((xx, yy))
            if s2 is not None and not (abs(s - s2) <= MC.tol(s, 2.0)):
                V.violation(f'symmetry:{label}:Y={list(yy)} X={list(xx)}', f'score(Y,X)={s!r} but score(X,Y)={s2!r}', {'y': yy, 'x': xx})
        # the same pairs through the dispatcher importance_estimator.numba_mi (heuristic MI-numba), as a flat vector and as the
        # single-column (n, 1) array the pipeline builds when a reference model is given
        step = max(1, len(cases) // (300 if tier == 'quick' else 3000))
        sub = list(range(0, len(cases), step))
        for shape in ('flat', 'col'):
            gw, cw = MC.real_eval('numba_mi', [[cases[i]['y'], cases[i]['x'], 'MI-numba', 1.0, shape] for i in sub])
            for i, s in zip(sub, gw):
                c = cases[i]
                if s is None:
                    continue
                e = O.vec_value(c['vec'], len(c['y']))
                if not (abs(s - e) <= MC.tol(e, O.entropy(c['y']))):
                    V.violation(f'dispatcher:{label}:{shape}:Y={c["y"]} X={c["x"]}', f'numba_mi(first vector of shape {"(n,)" if shape == "flat" else "(n, 1)"}, "MI-numba") = {s!r} != plug-in MI {e!r}', c)
            V.count(evaluations=len(sub), nontrivial=len(sub), traces=len(sub) - len(cw))
        V.count(evaluations=len(cases), nontrivial=nontriv, traces=len(cases) - len(crashes))
        V.add_sample({'family': label, 'Y': cases[len(cases) // 2]['y'], 'X': cases[len(cases) // 2]['x'],
                      'spec_vector_n_times_MI': cases[len(cases) // 2]['vec'], 'real_score': got[len(cases) // 2]})

    # ---- medium n: the transcription is validated by TLC itself (MITrace), then used as oracle
    wd = E.workdir('c01')
    try:
        NMAX = 40 if tier == 'quick' else 120
        recs = []
        for n in ([1, 2, 3, 7, 16, NMAX] if tier == 'quick' else [1, 2, 3, 5, 7, 16, 33, 64, NMAX]):
            for name, y, x in families(rng, n):
                y = [v % 64 for v in y]
                x = [v % 64 for v in x]
                recs.append({'y': y, 'x': x, 'c': False, 'vec': {str(p): k for p, k in O.primevec(O.spec_score(y, x, False), NMAX).items()}})
        tf = os.path.join(wd, 'mi.ndjson')
        with open(tf, 'w') as f:
            for r in recs:
                f.write(json.dumps(r) + '\n')
        consts = MC.mi_constants(NMAX, 64, False, [False], [8])
        cfg = E.write_cfg(os.path.join(wd, 'tr.cfg'), spec='TSpec', constants=consts, invariants=['RecordOK'], postcondition='Accepted')
        res = E.run_tlc('MITrace', cfg, workers=1, env={'TRACE_FILE': tf}, timeout=1500)
        E.require_ok(res, 'MITrace')
        V.add_tlc(res, 'MITrace(medium n)')
        if not res.ok:
            raise E.MachineryError('MITrace rejected the transcription: ' + res.stdout[-800:])
        # negative control: a corrupted vector must be rejected
        bad = dict(recs[5])
        bad['vec'] = dict(bad['vec'])
        bad['vec']['2'] = bad['vec']['2'] + 1
        with open(tf, 'w') as f:
            f.write(json.dumps(bad) + '\n')
        res2 = E.run_tlc('MITrace', cfg, workers=1, env={'TRACE_FILE': tf}, timeout=600)
        if res2.ok:
            raise E.MachineryError('negative control: MITrace accepted a corrupted vector')
        V.notes['negative_control'] = 'MITrace rejects a record whose vector was corrupted by +1 at prime 2'
    finally:
        E.cleanup(wd)

    # ---- large n (property bound: 10^6): families, transcription as oracle, float corollaries
    sizes = [1, 2, 3, 10, 257, 5000, 60000] if tier == 'quick' else [1, 2, 3, 10, 257, 5000, 60000, 300000, 1000000]
    big = []
    for n in sizes:
        for name, y, x in families(rng, n):
            big.append((name, n, y, x))
    # one stratum of X with far more than 10^5 rows in which Y has classes that occur once (their share of the stratum is < 1e-5)
    for n in ([300000] if tier == 'quick' else [300000, 1000000]):
        xs = [0 if rng.random() < 0.87 else 1 + rng.randrange(4) for _ in range(n)]
        ys = [rng.randrange(5) for _ in range(n)]
        for k_, i_ in enumerate(rng.sample(range(n), max(50, n // 700))):
            ys[i_] = 10 + k_
        big.append(('dominant-stratum-rare-classes', n, ys, xs))
        big.append(('constant-x-rare-classes', n, ys, [4] * n))
    req = []
    for name, n, y, x in big:
        req.append([y, x, 1.0, False])
        req.append([x, y, 1.0, False])
    got, crashes = MC.real_eval('score', req, procs=14, stride=True)
    for idx, rc, err in crashes:
        name, n, y, x = big[idx // 2]
        V.violation(f'crash:large:{name}:n={n}', f'estimator process died ({E.signal_name(rc)}) family={name} n={n} seed={seed}: {err[-300:]}', {'family': name, 'n': n, 'seed': seed})
    nontriv = 0
    for k, (name, n, y, x) in enumerate(big):
        s, s2 = got[2 * k], got[2 * k + 1]
        if s is None or s2 is None:
            continue
        e = O.value(O.n_plugin(y, x), n)
        hy, hx = O.entropy(y), O.entropy(x)
        key = f'large:{name}:n={n}'
        case = {'family': name, 'n': n, 'seed': seed, 'Y_head': y[:20], 'X_head': x[:20]}
        if len(set(y)) > 1 and len(set(x)) > 1:
            nontriv += 1
        if not (abs(s - e) <= MC.tol(e, hy)):
            V.violation('plugin:' + key, f'score {s!r} != plug-in MI {e!r}', case)
        if not (abs(s - s2) <= MC.tol(e, hy + hx)):
            V.violation('symmetry:' + key, f'score(Y,X)={s!r} score(X,Y)={s2!r}', case)
        if s < -MC.tol(0, hy) or s > min(hy, hx) + MC.tol(hy, hy):
            V.violation('bound:' + key, f'score {s!r} outside [0, min(H)={min(hy, hx)!r}]', case)
        if y == x and not (abs(s - hy) <= MC.tol(hy, hy)):
            V.violation('self:' + key, f'self score {s!r} != entropy {hy!r}', case)
    V.count(evaluations=2 * len(big), nontrivial=nontriv, traces=len(big))
    V.add_sample({'family': big[-3][0], 'n': big[-3][1], 'real_score': got[-6], 'oracle': O.value(O.n_plugin(big[-3][2], big[-3][3]), big[-3][1])})
    V.coverage['exhaustive'] = True
    V.notes['exhaustive_scope'] = [f'{lab}: {c}' for lab, c in runs]
    return V.finish()


if __name__ == '__main__':
    try:
        sys.exit(main())
    except E.MachineryError as e:
        print(f'MACHINERY-FAILURE {PID}: {e}', file=sys.stderr)
        sys.exit(2)
    except Exception as e:  # unexpected harness error: machinery failure, never a verdict
        import traceback
        traceback.print_exc()
        print(f'MACHINERY-FAILURE {PID}: unexpected {type(e).__name__}: {e}', file=sys.stderr)
        sys.exit(2)
