"""C03 - cardinality correction subtracts the displaced-copy noise floor."""
from __future__ import annotations

import json
import os
import random
import sys

sys.path.insert(0, os.path.dirname(os.path.dirname(os.path.abspath(__file__))))
from harness import engine as E
from harness import mi_common as MC
from harness import mi_oracle as O

PID = 'C03'
INVS = ['CorrectedIsDifference', 'ConstantFeatureZero', 'AllDistinctFeatureZero', 'SelfIsEntropy', 'ResultIsSpec', 'ShortcutExact']


def main():
    tier, seed, replay = E.tier_seed()
    V = E.Verdict(PID, tier, seed)
    rng = random.Random(seed * 15485863 + 3)
    V.coverage['rule'] = ('TLC: every ordered pair of vectors in every row order (the displacement depends on positions) with correction on; '
                          'invariants CorrectedIsDifference (code-shaped accumulation = H(Y*|X)-H(Y|X) from the definition), constant / all-distinct '
                          'feature = exact zero vector, self = entropy; every state replayed into the real estimator (flag TRUE) and, through the '
                          'heuristic name MI-numba-randomized, into importance_estimator.numba_mi.  Ranking corollary: seeded planted-signal family, '
                          'recorded scores validated by TLC (MIRankTrace).  non-trivial = distinct pairs with Y # X, Y neither constant nor all-distinct')
    V.assumptions += ['tolerance 3e-6*(1+|E|+H)', 'ranking corollary is statistical: decided on the seeds run (listed in coverage)']

    runs = [('canonical', MC.mi_constants(6 if tier == 'quick' else 7, 6 if tier == 'quick' else 7, True, [True], [8])),
            ('raw', MC.mi_constants(5 if tier == 'quick' else 6, 3, False, [True], [8]))]
    for label, consts in runs:
        res, cases = MC.run_mi(V, f'MIEstimator/{label}', consts, INVS, coverage=(tier == 'quick' and label == 'raw'))
        if not cases:
            raise E.MachineryError('no cases emitted')
        bad = MC.check_oracle_against_tlc(cases)
        if bad:
            raise E.MachineryError(f'oracle transcription disagrees with TLC on {bad[0]}')
        req = [[c['y'], c['x'], 1.0, True] for c in cases]
        got, crashes = MC.real_eval('score', req)
        for idx, rc, err in crashes:
            V.violation(f'crash:{label}:{cases[idx]["y"]}|{cases[idx]["x"]}', f'estimator died ({E.signal_name(rc)})', cases[idx])
        # through the dispatcher by heuristic name: a random sample, plus every self pair and every pair with an all-distinct
        # or constant feature (the statement's corollaries must hold on this path too)
        special = lambda c_: c_['y'] == c_['x'] or len(set(c_['y'])) in (1, len(c_['y']))
        sub = [i for i in range(len(cases)) if special(cases[i]) or rng.random() < (0.1 if tier == 'quick' else 0.3)]
        # every second one as the (n, 1) column that generate_data_for_ranking hands over when --reference_model_JSON is set
        got_name, crashes_n = MC.real_eval('numba_mi', [[cases[i]['y'], cases[i]['x'], 'MI-numba-randomized', 1.0, 'col' if k_ % 2 else 'flat'] for k_, i in enumerate(sub)])
        nontriv = 0
        for c, s in zip(cases, got):
            if s is None:
                continue
            n = len(c['y'])
            e = O.vec_value(c['vec'], n)
            hy = O.entropy(c['y'])
            key = f'{label}:Y={c["y"]} X={c["x"]}'
            ny = len(set(c['y']))
            if c['y'] != c['x'] and 1 < ny < n:
                nontriv += 1
            if not (abs(s - e) <= MC.tol(e, hy)):
                V.violation('corrected:' + key, f'score {s!r} != H(Y*|X)-H(Y|X) = {e!r}', c)
            if c['y'] != c['x'] and ny == 1 and not (abs(s) <= MC.tol(0, 1)):
                V.violation('constant-feature:' + key, f'constant feature scores {s!r}', c)
            if c['y'] != c['x'] and ny == n and not (abs(s) <= MC.tol(0, hy)):
                V.violation('identifier-feature:' + key, f'all-distinct feature scores {s!r}', c)
            if c['y'] == c['x'] and not (abs(s - hy) <= MC.tol(hy, hy)):
                V.violation('self:' + key, f'self score {s!r} != entropy {hy!r}', c)
        for i, s in zip(sub, got_name):
            c = cases[i]
            e = O.vec_value(c['vec'], len(c['y']))
            if s is None or not (abs(s - e) <= MC.tol(e, O.entropy(c['y']))):
                V.violation(f'heuristic-name:{label}:Y={c["y"]} X={c["x"]}', f'numba_mi(..., "MI-numba-randomized") = {s!r}, corrected score is {e!r}', c)
        V.count(evaluations=len(cases) + len(sub), nontrivial=nontriv, traces=len(cases) + len(sub) - len(crashes))
        k = next(i for i, c in enumerate(cases) if c['y'] != c['x'] and 1 < len(set(c['y'])) < len(c['y']) and any(c['vec'].values()))
        V.add_sample({'family': label, **{a: cases[k][a] for a in ('y', 'x', 'vec')}, 'real_score': got[k]})

    # large n identity
    big = []
    for n in ([500, 20000] if tier == 'quick' else [500, 20000, 200000]):
        tgt = [rng.randrange(3) for _ in range(n)]
        big.append(('dependent', n, [(t + (rng.random() < 0.3)) % 3 for t in tgt], tgt))
        big.append(('noise-card50', n, [rng.randrange(50) for _ in range(n)], tgt))
        big.append(('identifier', n, rng.sample(range(n), n), tgt))
        big.append(('constant', n, [7] * n, tgt))
        big.append(('high-card-target', n, [rng.randrange(4) for _ in range(n)], [rng.randrange(min(n // 4, 800)) for _ in range(n)]))
        big.append(('self', n, tgt, list(tgt)))
        ident = rng.sample(range(n), n)
        big.append(('identifier-self', n, ident, list(ident)))
    got, crashes = MC.real_eval('score', [[y, x, 1.0, True] for _, _, y, x in big], stride=True)
    got_d, _ = MC.real_eval('numba_mi', [[y, x, 'MI-numba-randomized', 1.0] for _, _, y, x in big], stride=True)
    for (nm, n, y, x), s in zip(big + [(nm_ + ':by-name', n_, y_, x_) for nm_, n_, y_, x_ in big], list(got) + list(got_d)):
        e = O.value(O.spec_score(y, x, True), n)
        if s is None or not (abs(s - e) <= MC.tol(e, O.entropy(y))):
            V.violation(f'large:{nm}:n={n}', f'score {s!r} != specified {e!r}', {'family': nm, 'n': n, 'seed': seed})
    V.count(evaluations=2 * len(big), nontrivial=2 * len(big) - 4, traces=2 * len(big))

    # ranking corollary
    seeds = range(seed * 1000, seed * 1000 + (12 if tier == 'quick' else 300))
    req, meta = [], []
    for sd in seeds:
        r2 = random.Random(sd)
        n = 4000 if sd % 2 == 0 else 8000
        tgt = [r2.randrange(2) for _ in range(n)]
        sig = [t ^ (r2.random() < 0.15) for t in tgt]
        feats = [('signal', [int(v) for v in sig])]
        for card in (2, 10, 100, 1000, n):
            feats.append((f'noise{card}', [r2.randrange(card) for _ in range(n)] if card < n else r2.sample(range(n), n)))
        for nm, f in feats:
            for cflag in (True, False):
                req.append([f, tgt, 1.0, cflag])
                meta.append((sd, n, nm, cflag))
    got, crashes = MC.real_eval('score', req, stride=True)
    if crashes:
        V.violation(f'crash:planted:seed={meta[crashes[0][0]][0]}', 'estimator died on planted family', {'seed': meta[crashes[0][0]][0]})
    wd = E.workdir('c03')
    try:
        per = {}
        for (sd, n, nm, cflag), s in zip(meta, got):
            per.setdefault(sd, {})[(nm, cflag)] = s
        tf = os.path.join(wd, 'rank.ndjson')
        recs = []
        for sd, d in per.items():
            if any(v is None for v in d.values()):
                continue
            sc = lambda v: int(round(v * 2 ** 20))
            noise_names = sorted({nm for nm, _ in d if nm != 'signal'})
            recs.append({'seed': sd, 'sig': sc(d[('signal', True)]), 'noise': [sc(d[(nm, True)]) for nm in noise_names],
                         'usig': sc(d[('signal', False)]), 'unoise': [sc(d[(nm, False)]) for nm in noise_names]})
        with open(tf, 'w') as f:
            for r in recs:
                f.write(json.dumps(r) + '\n')
        cfg = E.write_cfg(os.path.join(wd, 'rk.cfg'), spec='Spec', invariants=['SignalOutranksNoise', 'NonVacuous'], postcondition='Accepted')
        res = E.run_tlc('MIRankTrace', cfg, workers=1, env={'TRACE_FILE': tf}, timeout=600)
        E.require_ok(res, 'MIRankTrace')
        V.add_tlc(res, 'MIRankTrace')
        if res.violated == 'NonVacuous':
            raise E.MachineryError('planted family never defeats the uncorrected score (vacuous corollary)')
        if not res.ok:
            # find the failing seed(s) on the harness side for the replay file
            for r in recs:
                if r['sig'] <= max(r['noise']):
                    V.violation(f'ranking:seed={r["seed"]}', f'signal corrected score {r["sig"]/2**20:.5f} does not outrank noise {max(r["noise"])/2**20:.5f}', r)
            if not V.violations:
                raise E.MachineryError('MIRankTrace rejected the trace: ' + res.stdout[-600:])
        V.count(evaluations=len(recs), nontrivial=len(recs), traces=len(recs))
        V.add_sample({'planted_seed': recs[0]})
        V.notes['planted_seeds'] = [r['seed'] for r in recs][:400]
        # negative control: a trace whose signal is below the noise is rejected
        bad = dict(recs[0]); bad['sig'] = min(bad['noise']) - 1
        with open(tf, 'w') as f:
            f.write(json.dumps(bad) + '\n')
        res2 = E.run_tlc('MIRankTrace', cfg, workers=1, env={'TRACE_FILE': tf}, timeout=600)
        if res2.violated != 'SignalOutranksNoise':
            raise E.MachineryError('negative control: corrupted ranking trace accepted')
    finally:
        E.cleanup(wd)
    # ---- the same corollary and identity through the batch path (string columns -> mixed_rank_graph, target-only): the corrected
    # score is a function of the rows AS GIVEN (the displaced copy reads the next rows), whatever the label balance
    from harness import pipe_common as PC
    pj = []
    for k_ in range(2 if tier == 'quick' else 6):
        r3 = random.Random(seed * 77 + k_)
        n3 = 4000
        tgt = [i_ % 2 for i_ in range(n3)] if k_ % 2 == 0 else [r3.randrange(2) for _ in range(n3)]      # exactly balanced / coin flips
        r3.shuffle(tgt)
        cols3 = {'label': [str(t_) for t_ in tgt], 'signal': [str(t_ ^ (r3.random() < 0.15)) for t_ in tgt]}
        for card in (2, 100, 4000):
            cols3[f'noise{card}'] = [f'v{r3.randrange(card)}' for _ in range(n3)] if card < n3 else [f'id{i_}' for i_ in r3.sample(range(n3), n3)]
        pj.append({'op': 'rank_graph', 'columns': ['signal', 'noise2', 'label', 'noise100', 'noise4000'], 'frame': cols3, 'batches': 1,
                   'args': {'heuristic': 'MI-numba-randomized', 'label_column': 'label', 'target_ranking_only': 'True', 'combination_number_upper_bound': 10 ** 6}})
    for job, r in zip(pj, PC.pipe_eval(pj, modules=['pipe_ops'])):
        if r is None or 'ok' not in r:
            V.violation('raises:pipeline-planted', f'mixed_rank_graph failed: {PC.failure_text(r)}', {'columns': job['columns']})
            continue
        sc = {a_: s_ for a_, b_, s_ in r['ok'][0]['trip'] if b_ == 'label' and a_ != 'label'}
        fr = job['frame']
        code = lambda col: [sorted(set(fr[col])).index(v_) for v_ in fr[col]]
        lab_codes = code('label')
        for fn in ('signal', 'noise2', 'noise100'):
            e = O.value(O.spec_score(code(fn), lab_codes, True), len(lab_codes))
            if fn not in sc or not (abs(sc[fn] - e) <= MC.tol(e, 1.0)):
                V.violation(f'corrected:pipeline-planted:{fn}', f'score {sc.get(fn)!r} of {fn} against the label through mixed_rank_graph != H(Y*|X)-H(Y|X) = {e!r} on the rows as given', {'feature': fn, 'seed': seed})
        if 'signal' in sc and any(sc['signal'] <= v_ for k2, v_ in sc.items() if k2 != 'signal'):
            V.violation('ranking:pipeline-planted', f'the informative feature ({sc["signal"]:.5f}) does not outrank the noise features { {k2: round(v_, 5) for k2, v_ in sc.items()} }', {'seed': seed})
    V.count(evaluations=len(pj), nontrivial=len(pj), traces=len(pj))
    V.coverage['exhaustive'] = True
    return V.finish()


if __name__ == '__main__':
    try:
        sys.exit(main())
    except E.MachineryError as e:
        print(f'MACHINERY-FAILURE {PID}: {e}', file=sys.stderr)
        sys.exit(2)
    except Exception as e:  # unexpected harness error: machinery failure, never a verdict
        import traceback
        traceback.print_exc()
        print(f'MACHINERY-FAILURE {PID}: unexpected {type(e).__name__}: {e}', file=sys.stderr)
        sys.exit(2)
