"""Regenerates MANIFEST.json from the table below (kept here so that it is always valid)."""
import json, os
HERE = os.path.dirname(os.path.dirname(os.path.abspath(__file__)))
props = [json.loads(l) for l in open(os.path.join(HERE, 'properties.jsonl'))]
ids = [p['id'] for p in props]

CHECKS = {
 'C01': dict(sec='3/C01', tech='TLC exhaustive enumeration of MIEstimator.tla (exact prime-vector log arithmetic) + replay of every state into the real estimator + MITrace validation',
             text='TLC model-checks MIEstimator.tla (PlainIsPlugin, Symmetric, ConstantZero, SelfIsEntropy) on every ordered pair of vectors of a bounded space (raw 3-code vectors and all pairs of set partitions of the rows), with real-number equality decided exactly through prime-exponent vectors; every explored state is replayed into the real mutual_info_estimator_numba and compared with the exact value; larger n use the transcription of the definition that TLC validated (MITrace).',
             note='exhaustive up to N rows (quick 5 raw/6 canonical, thorough 6/7); beyond that seeded families up to n=10^6 with the TLC-validated transcription as oracle; float tolerance 3e-6 relative'),
 'C02': dict(sec='3/C02', tech='TLC invariants RelabelInvariant/ShortcutExact on MIEstimator.tla + replay of every state and of relabelled variants into the real estimator',
             text='The specified shortcut (element-wise identity) and relabelling invariance are model-checked over all permutation pairs; each state and a family of injective relabellings (offset, reversal, sparse codes up to 2^20-1, permutations; either side) are replayed into the real estimator and compared with the specified value, including every equal-sum non-identical pair of the space.',
             note='bounded vector space; relabelling family finite; large-n equal-histogram cases seeded'),
 'C03': dict(sec='3/C03', tech='TLC invariant CorrectedIsDifference (code-shaped step machine vs definition) + replay into the real estimator and numba_mi; MIRankTrace validation of the planted-signal sweep',
             text='The step machine accumulating stratum terms of the feature and of its displaced copy is model-checked equal to H(Y*|X)-H(Y|X) from the definition for every pair in every row order; every state is replayed (flag and heuristic name); the ranking corollary is a seeded sweep whose recorded scores TLC validates.',
             note='ranking corollary is statistical (seeds listed in evidence)'),
 'C04': dict(sec='3/C04', tech='TLC step machine with an explicit index buffer (Unwritten slots) + replay into stratified_subsampling / the estimator in poisoned child processes; MISampleTrace',
             text='The sampling machine (Enter/WritePrefix*/Gather) is model-checked for NoUninitialisedRead, SampleIsPrefixes and SampleOnly; every state is replayed: the real sample must equal the specified one, scores must be finite and identical over repetitions, processes and heap-poison patterns, and unchanged when Y is altered outside the sample.',
             note='uninitialised memory is provoked by poisoning freed allocations, not enumerated; r is the float32 ratio the estimator receives'),

 'C10': dict(sec='3/C10', tech='TLC enumeration of Interactions.tla (frames over a concatenation-adversarial alphabet, sampler with persistent counter) + replay into the real compute_combined_features',
             text='Interactions.tla specifies the interaction feature by its kernel (equal iff all constituents equal), its name, the candidate space and the least-evaluated-first selection; TLC enumerates every frame of a bounded space and each state (two consecutive batches) is replayed into the real function: partitions, names, selection, untouched originals and score equality with the explicit tuple are compared; the KeyByConcatenation deviation shows the model separates aliasing keys.',
             note='bounded frames (<=4 feature columns, <=3 rows, alphabet "", "1", "11", "a", "1a" under several character maps); 64-bit collisions out of reach'),

 'C07': dict(sec='3/C07', tech='TLC on Sampler.tla with a normalising VIEW (all histories of any length) + behaviours replayed into the real prior_combinations_sample + SamplerTrace validation of recorded pipeline runs',
             text='Sampler.tla models the process-global evaluation counter and one action per sampler call; Fair, ExactlyCap, LeastFirst, CountsArePicks are model-checked for every history (the VIEW subtracts the minimum count, making the unbounded counter finite), two-client and duplicate-key lists included; every behaviour of 3-4 calls is replayed through the real function comparing returned list and whole counter; sampler calls recorded in real multi-batch runs (both call sites, caps below/above the list) are validated by SamplerTrace.tla, which also checks the reported counts per combination.',
             note='list sizes <= 7, caps <= size+1; recorded runs use 6-20 batches of 40 rows; negative control: reversed returned list is rejected'),

 'C06': dict(sec='3/C06', tech='TLC on RankGraph.tla (code-shaped pair enumeration vs SpecPairs, cap, mirror) + replay of every configuration into the real get_combinations_from_columns/mixed_rank_graph + TraceRankGraph validation of seeded runs',
             text='RankGraph.tla models Enumerate/ClampCap/Sample/Shuffle/Constant/pool/Mirror; EnumerationIsSpec, PairsExact, BothOrientations, ConstantOnce, NoForeignColumn, RelOnlyWithLabel are model-checked for every ordered column selection, mode, heuristic kind and cap over two batches; every configuration is replayed through the real functions and seeded configurations (up to 40/150 columns, adversarial names) are validated by TraceRankGraph.tla.',
             note='column universe of 5 names (<=4 chosen) in the exhaustive part; pair multiplicity unconstrained'),
 'C09': dict(sec='3/C09', tech='TLC on the pool sub-machine of RankGraph.tla (all shuffles and worker interleavings) + every schedule executed by ScheduledPool under the real mixed_rank_graph + fresh-process CLI runs with the real pathos pool',
             text='ScheduleIndependent/ResultsComplete are model-checked over every shuffle permutation and Take/Finish interleaving (amap and uimap variants); each TLC schedule is replayed into the real code and compared bit for bit with the reference; the real CLI is run in fresh interpreters with different pool sizes, repetitions and hash seeds over several flag sets and the outputs compared as sorted row sets.',
             note='pool sizes in CLI runs: quick {1,3}, thorough {1,2,4,8,16}; OS scheduling of the real pool is sampled, not enumerated'),

 'C05': dict(sec='3/C05', tech='TLC enumeration of Scoring.tla (dispatch table + exact scorer results per column pair) + replay of every frame into the real mixed_rank_graph under rotating heuristic names; documented names extracted from the repository at check time',
             text='Scoring.tla fixes for every heuristic name the scorer kind, the category coding (rank in the sorted value set), the conditioning side (label) and the exact result (log-vectors / rationals); TLC enumerates every frame of a bounded space and each is scored by the real mixed_rank_graph with adversarial string renderings; DocumentedNotConstant is checked on the model with the documented names and on the real code with a probe frame.',
             note='frames: label + 2-3 features, 3-5 rows, <=3 values; Pearson/AMI library formulas evaluated by the harness on independent codes'),

 'C08': dict(sec='3/C08', tech='TLC on Streaming.tla (exhaustive small constants) + literal replay of every small file into the real streaming loop + TraceStreaming.tla validation of full-scale recorded runs (real constants, CLI included)',
             text='Streaming.tla has one action per branch of the line loop and the tail; ConsumedExactly, InvalidCounted, CheckpointIsMedianSoFar, OutputAscending are model-checked for every file of Good/Bad lines around every batch/tail boundary; every small file is replayed through the real estimate_importances_minibatches; full-scale executions (minibatch 1100-4096, tail sizes 1023/1024/1025, malformed rows at boundaries) are recorded at the loop linearisation points and validated event by event, every checkpoint table and the written file included.',
             note='exhaustive files up to 8-16 lines; full-scale runs are seeded; scores compared as scaled integers with tolerance 2 units on doubled medians'),

 'C13': dict(sec='3/C13', tech='TLC on DataQuality.tla (arbitrary batch cuts, ghost of consumed rows) + replay of every history into the real compute_coverage/compute_cardinalities/compute_value_counts + TraceQuality.tla on recorded multi-split runs + CLI outputs across minibatch sizes',
             text='DataQuality.tla lets the environment append rows and consume the buffer at arbitrary moments, so every composition of the row count is explored; CardinalityExact, HistogramExact, RareReportExact, CoverageIsPerBatch compare the process-global state with the exact recomputation over the ghost of consumed rows, which makes split-independence a one-run invariant; every history is replayed through the real functions; per-batch states of real runs over one file with several minibatch sizes are validated by TraceQuality.tla and compared across splits; the CLI annotations, value_repetitions.json and rare_values.tsv are compared across splits and with the recomputation.',
             note='exhaustive histories of <=5 rows; recorded runs of 1200-3000 rows; cardinality in the exact phase of the sketch'),

 'C14': dict(sec='3/C14', tech='TLC on HLL.tla (real class scaled down through its attributes, bucket map measured from the real hash) + replay of every insertion sequence + TraceHLL.tla on full-scale boundary-crossing runs',
             text='HLL.tla models warm-up set, conversion and register phase; ExactWhileWarm, ConversionLosesNothing and the action property DuplicateBlind are model-checked over every insertion sequence of a bounded space; each sequence is replayed on the real class (p=3, capacity 3); full-scale runs of the unmodified class crossing 2^18 in several orders and up to 2^20/2^21 distinct values are recorded add by add near the boundary and validated by TraceHLL.tla (exactness, 2% bound, duplicate-blindness).',
             note='the 2% clause is decided on the seeded full-scale runs; the linear-counting table of the scaled model is computed by the harness'),
 'C15': dict(sec='3/C15', tech='TLC on CMS.tla (all hash functions, all bounded streams; bounded counter) + replay of every counter stream + TraceCMS.tla on recorded real count-min streams',
             text='CMS.tla chooses an arbitrary hash function at Init and explores every update stream of single updates and whole-list BatchUpdate calls (deviation BatchCellOnce as control): NeverUnder, NeverOverTotal, RowSumsAreTotal; the bounded counter machine (adds and look-ups, deviation LookupInserts as control) is model-checked and every stream replayed on the real class, once plainly and once with look-ups between the adds; real CountMinSketch objects of many shapes and seeds are driven by seeded streams (add, batch_add of single items and of whole lists with repeated and colliding items) and each call (all query results, row sums) is validated by TraceCMS.tla against the ghosts truth/total.',
             note='exhaustive for D<=3, W<=3, <=3 items, streams <=5; real streams seeded (40 quick / 400 thorough)'),

 'C16': dict(sec='3/C16', tech='TLC enumeration of Parsers.tla (character-level CSV/TSV/VW render+parse machines, namespace maps) + every rendered line through the real generic_line_parser / parse_namespace; wrong-arity lines through the real streaming loop',
             text='Parsers.tla renders every row of a bounded space as CSV (RFC 4180), TAB-separated and VW lines and parses them back with a 4-state CSV reader, a split-on-TAB reader and the VW namespace grammar: RoundTripCSV, RoundTripTSV, ArityExact, VWFieldsInColumns; every rendered line is parsed by the real code under the matching data source with several character maps and must return exactly the cells; namespace maps over 7 line shapes; wrong-arity lines must be rejected as a whole by the real loop.',
             note='cells of length <= 2 over 4-5 characters, <= 3-6 cells; VW: <=3 namespaces, <=2 tokens; multi-token prefix removal accepted in both readings'),

 'C11': dict(sec='3/C11', tech='TLC enumeration of FeatureConstruction.tla (one action per constructor, flag subsets) + replay of every state through the real compute_batch_ranking with the constructed frame captured',
             text='FeatureConstruction.tla applies Expand/Sub/Interact/Noise in pipeline order to every frame of a bounded space and model-checks Additive, OneValuePerRow, MultiValueRule, OneSidedRule, TwoSidedRule, TargetControlIsLabel; every (frame, flags) state is replayed through the real compute_batch_ranking and the constructed frame compared column by column with the specification.',
             note='frames: label + multi-value column + two categorical columns, 3 rows; the order of appended columns is not constrained'),

 'C12': dict(sec='3/C12', tech='TLC enumeration of Transformers.tla (preset-list loop, keep/drop rule on symbol multisets, fw sqrt family with exact integer rounding, round-half-to-even at exact ties) + each enumerated case bound to the real FeatureTransformerGeneric; named-formula oracle for the transcendental leaves',
             text='Transformers.tla has three machines: the constructor loop over the preset list (CollectionIsUnion, with the presets extracted from the vault at check time), the keep/drop rule on every multiset of output symbols incl. the exact 80%/75% boundaries, and the fw sqrt family whose rounding is decided exactly in the integers from the resolution and threshold in the NAME; every list, multiset and (resolution, threshold, x) cell is compared with the real code; log-kind and minimal/default formulas use a scalar oracle written from the transformer names.',
             note='log/default formulas are outside TLC (math library); ambiguous NaN-only-plus-one-symbol columns are not judged'),

 'C17': dict(sec='3/C17', tech='TLC on Ranking3MR.tla (greedy machine with nondeterministic ties, exact integer importances): allowed rankings of every small dictionary must contain the real output; Trace3MR.tla validates the real order pick by pick for seeded dictionaries and for a CLI run',
             text='Ranking3MR.tla enumerates every dictionary of a bounded space and all greedy-optimal complete rankings; the real rank_features_3MR output must be one of them; for seeded dictionaries of up to 30 features each returned order is validated pick by pick (maximiser among the remaining features, every feature once, ranks 1..n) by Trace3MR.tla; a CLI run with MI-numba-3mr binds 3mr_ranks.tsv to the scores of the same run.',
             note='3 features exhaustively; seeded calls 60 (quick) / 600 (thorough); integer-valued dictionaries'),
 'C18': dict(sec='3/C18', tech='TraceSummary.tla validation of the real task_summary outputs for seeded triplet tables (exact rational comparison of medians and min-max normalisation)',
             text='Seeded pairwise_ranks tables are summarised by the real outrank_task_result_summary and the two output files are validated by TraceSummary.tla: each feature scored against the label exactly once, score = median (min-max normalised for MI heuristics, best 1 / worst 0), descending order, aggregated table = per-constituent median over the interaction features.',
             note='trace validation only (no exhaustive model); base names without "-"; 80 (quick) / 1500 (thorough) tables'),

 'C19': dict(sec='3/C19', tech='TLC on Generators.tla part data (generate_data cursor machine over every structure) + replay through the real generate_data with distinguishable domains + TraceGenerators.tla on the recorded data sets (domain, representation, shape, seed)',
             text='The cursor machine FillGap/PlaceDeclared/FillRest is model-checked (ShapeExact, DeclaredAtDeclaredIndex, OthersDefault) for every structure of a bounded space; each structure is replayed through the real generator with pairwise distinguishable domains so that column value sets identify the placement; recorded data sets incl. the n_samples = |domain| boundary and random-draw domains are validated by TraceGenerators.tla; seed determinism within and across processes, and over every session of GeneratorSession.tla (several generate_data calls on one instance with derived-structure calls and foreign RNG use in between, deviation ReseedOnlyOnChange as control) replayed on a real instance; naive generator and data_generator task.',
             note='structures: <=3 entries over <=5 columns, strictly increasing indices (precondition)'),
 'C20': dict(sec='3/C20', tech='TLC on Generators.tla part info (bookkeeping over every call sequence) + replay on the real generator + TraceGenerators.tla on measured correlation / labels / noise / down-sampling results',
             text='InfoListsExactlyAddedColumns is model-checked over every sequence of correlate/duplicate/combine calls; each sequence is replayed on the real class comparing appended columns, self-description records, copies, combination functions and Pearson correlation; seeded label, noise, missing-value and down-sampling calls are measured and validated by TraceGenerators.tla (monotone step labels, class proportions when tie-free, noise budget and domain, exact marker counts, input untouched, per-class row counts).',
             note='Pearson correlation and percentiles computed by numpy (outside TLC); call sequences <= 3 over 3 source columns'),
}

checks = []
for pid in ids:
    if pid in CHECKS and os.path.exists(os.path.join(HERE, 'harness', pid.lower() + '.py')):
        c = CHECKS[pid]
        checks.append({
            'property_id': pid,
            'quick_cmd': f'./check {pid} --tier quick',
            'thorough_cmd': f'./check {pid} --tier thorough',
            'evidence_file': f'evidence/{pid}.json',
            'replay_cmd_template': f'./check {pid} --replay {{path}}',
            'engine': 'tlc+replay',
            'level_claimed': {'category': 'model_checking', 'text': c['text'], 'design_ref': c['sec']},
            'level_note': c['note'] + '; the seeded input families of the drivers were extended after twelve rounds of independent seeded changes (DESIGN.md 9.5, 9.8; seeded/<id>/)',
            'technique': c['tech'],
        })
claimed = {c['property_id'] for c in checks}
na = [{'property_id': pid, 'reason': 'check not built yet in this round (planned: see DESIGN.md section 3); not claimed until its spec and binding exist'}
      for pid in ids if pid not in claimed]
m = {
 'version': 1,
 'setup_cmd': './setup.sh',
 'hooks': {'guard': 'OUTRANK_VERIF', 'enable': 'no source hooks: all observation is from outside (module-level wrappers installed by the harness when OUTRANK_VERIF=1); /repo is used as is via the editable install of /venv',
           'baseline_off_cmd': 'cd /repo && env -u OUTRANK_VERIF /venv/bin/python -m pytest -q -p no:cacheprovider --timeout=900 --continue-on-collection-errors',
           'source_commits': [], 'add_only': True},
 'engines': [{'name': 'tlc+replay', 'path': 'harness/engine.py', 'serves_properties': sorted(claimed),
              'kind_free_text': 'TLC 1.8 model checking of spec/*.tla; replay of emitted states into the real code; trace validation of recorded executions; Apalache inductive invariant for the count-min machine (spec/apalache/)'}],
 'checks': checks,
 'not_applicable': na,
 'notes': 'Explicit TLA+ specifications in spec/, bound to /repo by replay and trace validation; see DESIGN.md. Exit 2 = machinery failure.',
}
json.dump(m, open(os.path.join(HERE, 'MANIFEST.json'), 'w'), indent=1)
print('claimed', sorted(claimed))
