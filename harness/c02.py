"""C02 - scores depend on co-occurrence structure only; the self-pair shortcut is exact."""
from __future__ import annotations

import os
import random
import sys

sys.path.insert(0, os.path.dirname(os.path.dirname(os.path.abspath(__file__))))
from harness import engine as E
from harness import mi_common as MC
from harness import mi_oracle as O

PID = 'C02'


def relabel_family(rng, K):
    codes = list(range(K))
    fam = [('offset+10', {v: v + 10 for v in codes}),
           ('reverse', {v: K - 1 - v for v in codes}),
           ('sparse', dict(zip(codes, rng.sample([5, 2 ** 20 - 1, 77777, 2 ** 19, 3, 1000003 % 2 ** 20, 42, 999999], K)))),
           ('identity', {v: v for v in codes})]
    p = codes[:]
    rng.shuffle(p)
    fam.append(('perm', dict(zip(codes, p))))
    return fam


def main():
    tier, seed, replay = E.tier_seed()
    V = E.Verdict(PID, tier, seed)
    rng = random.Random(seed * 104729 + 2)
    V.coverage['rule'] = ('TLC: every ordered pair of vectors x both correction flags; invariants ResultIsSpec, ShortcutExact and '
                          'RelabelInvariant (all pairs of permutations of the codes) on the model; every state replayed into the real '
                          'estimator and compared with the SPECIFIED result (shortcut iff element-wise identical); relabelled variants '
                          '(offset, order reversal, sparse recoding up to 2^20-1, random permutation, applied to either side) compared with '
                          'the original score.  non-trivial = distinct (Y,X,c) with Y # X and neither constant; equal-sum non-identical pairs counted separately')
    V.assumptions += ['tolerance 3e-6*(1+|E|+H)', 'relabelled expectations come from the TLC-validated transcription of SpecScore']

    # model-level relabelling invariance (all permutation pairs)
    nrel = 4 if tier == 'quick' else 5
    res, _ = MC.run_mi(V, f'MIEstimator/relabel-raw-N{nrel}', MC.mi_constants(nrel, 3, False, [False, True], [8]),
                       ['ResultIsSpec', 'ShortcutExact', 'RelabelInvariant'], emit=False)
    # deviation control: the model with detection by code sums must violate ResultIsSpec (non-vacuity of the shortcut clause)
    Vtmp = E.Verdict(PID, tier, seed)
    res_dev, _ = MC.run_mi(Vtmp, 'deviation', MC.mi_constants(3, 3, False, [True], [8], bysum=True), ['ResultIsSpec'], emit=False)
    if res_dev.violated != 'ResultIsSpec':
        raise E.MachineryError('deviation control: DetectBySum did not violate ResultIsSpec')
    V.notes['deviation_control'] = 'DetectBySum=TRUE violates ResultIsSpec (N=3): the model distinguishes equal-sum pairs from identical pairs'

    runs = [('raw', MC.mi_constants(5 if tier == 'quick' else 6, 3, False, [False, True], [8]), 3)]
    if tier != 'quick':
        runs.append(('canonical', MC.mi_constants(6, 6, True, [False, True], [8]), 6))
    for label, consts, K in runs:
        res, cases = MC.run_mi(V, f'MIEstimator/{label}', consts, ['ResultIsSpec', 'ShortcutExact'], coverage=(tier == 'quick'))
        if not cases:
            raise E.MachineryError('no cases emitted')
        bad = MC.check_oracle_against_tlc(cases)
        if bad:
            raise E.MachineryError(f'oracle transcription disagrees with TLC on {bad[0]}')
        if res.coverage and res.coverage.get('Detect', (0, 0))[0] == 0:
            raise E.MachineryError('Detect never taken')
        req = [[c['y'], c['x'], 1.0, c['c']] for c in cases]
        got, crashes = MC.real_eval('score', req)
        for idx, rc, err in crashes:
            V.violation(f'crash:{label}:{cases[idx]["y"]}|{cases[idx]["x"]}|{cases[idx]["c"]}', f'estimator died ({E.signal_name(rc)})', cases[idx])
        nontriv = eqsum = 0
        relreq, relmeta = [], []
        for c, s in zip(cases, got):
            if s is None:
                continue
            n = len(c['y'])
            e = O.vec_value(c['vec'], n)
            hy = O.entropy(c['y'])
            ident = c['y'] == c['x']
            same_sum = (not ident) and sum(c['y']) == sum(c['x'])
            if not ident and len(set(c['y'])) > 1 and len(set(c['x'])) > 1:
                nontriv += 1
            if same_sum and c['c']:
                eqsum += 1
            key = f'Y={c["y"]} X={c["x"]} c={c["c"]}'
            if not (abs(s - e) <= MC.tol(e, hy)):
                kind = 'shortcut-equal-sum' if (same_sum and c['c']) else 'spec'
                V.violation(f'{kind}:{key}', f'score {s!r} != specified {e!r} (identical={ident}, equal code sums={same_sum})', c)
            # relabelled variants: all "interesting" cases, a seeded 6% of the rest
            if ident or same_sum or rng.random() < (0.06 if tier == 'quick' else 0.25):
                for name, f in relabel_family(rng, K):
                    for side in ('Y', 'X', 'both'):
                        if name == 'identity' and side != 'both':
                            continue
                        fy = [f[v] for v in c['y']] if side in ('Y', 'both') else c['y']
                        gx = [f[v] for v in c['x']] if side in ('X', 'both') else c['x']
                        relreq.append([fy, gx, 1.0, c['c']])
                        relmeta.append((c, s, name, side))
        got2, crashes2 = MC.real_eval('score', relreq)
        for idx, rc, err in crashes2:
            V.violation(f'crash:relabel:{relreq[idx]}', f'estimator died ({E.signal_name(rc)}) on relabelled input', relreq[idx])
        for (c, s, name, side), rq, s2 in zip(relmeta, relreq, got2):
            if s2 is None:
                continue
            fy, gx = rq[0], rq[1]
            n = len(fy)
            e2 = O.value(O.spec_score(fy, gx, c['c']), n)
            hy = O.entropy(fy)
            key = f'Y={c["y"]} X={c["x"]} c={c["c"]} relabel={name}/{side}'
            if not (abs(s2 - e2) <= MC.tol(e2, hy)):
                V.violation(f'relabel-spec:{key}', f'relabelled pair Y={fy} X={gx}: score {s2!r} != specified {e2!r}', {'case': c, 'fy': fy, 'gx': gx})
            elif ((fy == gx) == (c['y'] == c['x'])) and not (abs(s2 - s) <= MC.tol(s, hy)):
                V.violation(f'relabel-invariance:{key}', f'score changed from {s!r} to {s2!r} under injective relabelling', {'case': c, 'fy': fy, 'gx': gx})
        # the same relabelled pairs through the dispatcher importance_estimator.numba_mi by heuristic name (the route every
        # pipeline score takes): argument handling there must not depend on the numeric size of the codes either
        nm_idx = [i for i in range(len(relreq)) if i % 5 == 0]
        got3, crashes3 = MC.real_eval('numba_mi', [[relreq[i][0], relreq[i][1], 'MI-numba-randomized' if relreq[i][3] else 'MI-numba', 1.0] for i in nm_idx])
        for i, s3 in zip(nm_idx, got3):
            c, s, name, side = relmeta[i]
            fy, gx = relreq[i][0], relreq[i][1]
            e2 = O.value(O.spec_score(fy, gx, c['c']), len(fy))
            if s3 is None or not (abs(s3 - e2) <= MC.tol(e2, O.entropy(fy))):
                V.violation(f'relabel-dispatcher:Y={c["y"]} X={c["x"]} c={c["c"]} relabel={name}/{side}',
                            f'numba_mi on the relabelled pair Y={fy} X={gx}: {s3!r} != specified {e2!r} (original pair scores {s!r})', {'case': c, 'fy': fy, 'gx': gx})
        V.count(evaluations=len(cases) + len(relreq) + len(nm_idx), nontrivial=nontriv, traces=len(cases) + len(relreq) + len(nm_idx) - len(crashes) - len(crashes2))
        V.notes[f'{label}_equal_sum_nonidentical_corrected_cases'] = eqsum
        if eqsum == 0:
            raise E.MachineryError('no equal-sum non-identical pair explored (vacuous shortcut clause)')
        k = next(i for i, c in enumerate(cases) if c['c'] and c['y'] != c['x'] and sum(c['y']) == sum(c['x']) and len(set(c['y'])) > 1)
        V.add_sample({'kind': 'equal-sum non-identical', **{a: cases[k][a] for a in ('y', 'x', 'c', 'vec')}, 'real_score': got[k]})
        V.add_sample({'kind': 'relabelled', 'request': relreq[len(relreq) // 2], 'real_score': got2[len(relreq) // 2]})

    # large, sparse: equal histograms / equal sums at n = 3000 with sparse codes
    big = []
    for n in ([64, 3000] if tier == 'quick' else [64, 3000, 50000]):
        base = [rng.randrange(6) for _ in range(n)]
        perm = base[:]
        rng.shuffle(perm)                       # same histogram, same sum, not identical
        dep = [(v + (rng.random() < 0.2)) % 6 for v in base]
        for nm, y, x in (('equal-histogram', base, perm), ('dependent', base, dep), ('self', base, list(base))):
            for cflag in (False, True):
                big.append((nm, n, y, x, cflag))
    # two vectors that are identical except in their very last rows / one row somewhere (not a self pair), at lengths around
    # typical block sizes
    for n in ([4101, 10000] if tier == 'quick' else [4097, 4101, 8191, 10000, 70000]):
        base = [rng.randrange(6) for _ in range(n)]
        for nm, where in (('differs-in-last-row', [n - 1]), ('differs-in-last-3-rows', [n - 3, n - 2, n - 1]), ('differs-in-one-middle-row', [n // 2])):
            x2 = list(base)
            for w_ in where:
                x2[w_] = (x2[w_] + 1 + rng.randrange(4)) % 6
            for cflag in (False, True):
                big.append((nm, n, base, x2, cflag))
    req, meta = [], []
    sparse = {v: s for v, s in zip(range(6), [2 ** 20 - 1, 17, 500000, 3, 2 ** 19 + 1, 99])}
    for nm, n, y, x, cflag in big:
        req.append([y, x, 1.0, cflag]); meta.append((nm, n, y, x, cflag, 'orig'))
        req.append([[sparse[v] for v in y], [v + 1000 for v in x], 1.0, cflag]); meta.append((nm, n, y, x, cflag, 'sparseY+offsetX'))
        req.append([[5 - v for v in y], [sparse[v] for v in x], 1.0, cflag]); meta.append((nm, n, y, x, cflag, 'reverseY+sparseX'))
    got, crashes = MC.real_eval('score', req, stride=True)
    for idx, rc, err in crashes:
        V.violation(f'crash:large:{meta[idx][0]}:n={meta[idx][1]}', f'estimator died ({E.signal_name(rc)})', {'family': meta[idx][0], 'n': meta[idx][1], 'seed': seed})
    for (nm, n, y, x, cflag, var), rq, s in zip(meta, req, got):
        if s is None:
            continue
        e = O.value(O.spec_score(rq[0], rq[1], cflag), n)
        if not (abs(s - e) <= MC.tol(e, O.entropy(y))):
            V.violation(f'large:{nm}:n={n}:c={cflag}:{var}', f'score {s!r} != specified {e!r}', {'family': nm, 'n': n, 'seed': seed, 'variant': var})
    V.count(evaluations=len(req), nontrivial=len(req) * 2 // 3, traces=len(req))
    # ---- through the batch path (string values -> category codes -> kernel): a column with more distinct values than a
    # 16-bit code can hold, scored under two injective namings of its values (the second reverses their sort order)
    from harness import pipe_common as PC
    nrow = 34000
    ids = [rng.randrange(33600) for _ in range(nrow)]
    ids[:33600] = rng.sample(range(33600), 33600)                       # every id at least once
    lab = [str((i % 7 + (i // 5)) % 2) for i in ids]
    k7 = [f'k{i % 7}' for i in range(nrow)]
    frames = {'plain': [f'v{i:06d}' for i in ids], 'reversed': [f'w{(99999 - i):06d}é' for i in ids]}
    pj = [{'op': 'rank_graph', 'columns': ['wide', 'label', 'k7'], 'frame': {'wide': frames[nm], 'label': lab, 'k7': k7}, 'batches': 1,
           'args': {'heuristic': hn, 'label_column': 'label', 'target_ranking_only': 'True', 'combination_number_upper_bound': 10 ** 6}}
          for hn in ('MI-numba-3mr', 'MI-numba-randomized') for nm in ('plain', 'reversed')]
    pg = PC.pipe_eval(pj, modules=['pipe_ops'])
    for k in (0, 2):
        hn = pj[k]['args']['heuristic']
        if any(r is None or 'ok' not in r for r in pg[k:k + 2]):
            V.violation(f'raises:pipeline-wide:{hn}', f'mixed_rank_graph failed on a 34000-row batch: {PC.failure_text(pg[k])} / {PC.failure_text(pg[k + 1])}', {'heuristic': hn})
            continue
        a = {(x, y): sc for x, y, sc in pg[k]['ok'][0]['trip']}
        b = {(x, y): sc for x, y, sc in pg[k + 1]['ok'][0]['trip']}
        for pr in sorted(a):
            if pr not in b or not (abs(a[pr] - b[pr]) <= 2e-5 * (1 + abs(a[pr]))):      # (observed difference on the unchanged tree: exactly 0; single-precision summation order may differ)
                V.violation(f'relabel-invariance:pipeline-wide:{hn}:pair={pr}', f'score {a[pr]!r} with the plain value names, {b.get(pr)!r} after an injective renaming of the values of column wide (33600 distinct values in the batch)', {'heuristic': hn, 'seed': seed})
                break
    V.count(evaluations=len(pj), nontrivial=len(pj), traces=len(pj))
    V.coverage['exhaustive'] = True
    return V.finish()


if __name__ == '__main__':
    try:
        sys.exit(main())
    except E.MachineryError as e:
        print(f'MACHINERY-FAILURE {PID}: {e}', file=sys.stderr)
        sys.exit(2)
    except Exception as e:  # unexpected harness error: machinery failure, never a verdict
        import traceback
        traceback.print_exc()
        print(f'MACHINERY-FAILURE {PID}: unexpected {type(e).__name__}: {e}', file=sys.stderr)
        sys.exit(2)
