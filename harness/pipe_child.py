"""Child process driving the REAL OutRank pipeline functions.  Request (stdin, JSON):
{"jobs": [{"op": ..., ...}, ...]} -> {"results": [...]} (one entry per job; an exception inside a
job is returned as {"error": "...", "type": "..."} - the harness decides what it means)."""
from __future__ import annotations

import os
import sys
import traceback

sys.path.insert(0, os.path.dirname(os.path.dirname(os.path.abspath(__file__))))
from harness import pipe_lib as L  # noqa: E402

L.quiet()
import numpy as np  # noqa: E402
import pandas as pd  # noqa: E402

import outrank.core_ranking as CR  # noqa: E402


def mkframe(job):
    cols = job['columns']
    return pd.DataFrame({c: job['frame'][c] for c in cols}, columns=cols)


def codes_of(series):
    return series.astype('category').cat.codes.values.astype(np.int32)


def op_combined_features(job):
    """compute_combined_features on the same frame for `batches` consecutive batches (the
    sampler's counter persists between them, as in one ranking run)."""
    from outrank.algorithms.feature_ranking.ranking_mi_numba import mutual_info_estimator_numba as est
    args = L.make_args(**job.get('args', {}))
    L.reset_globals()
    out = []
    for b in range(job.get('batches', 1)):
        df = mkframe(job)
        before = df.copy(deep=True)
        res = CR.compute_combined_features(df, args, L.Pbar(), job.get('is_3mr', False))
        cols = list(res.columns)
        new = [c for c in cols[len(job['columns']):]]
        same_prefix = cols[:len(job['columns'])] == job['columns']
        untouched = same_prefix and all(res[c].tolist() == before[c].tolist() and str(res[c].dtype) == str(before[c].dtype)
                                        for c in job['columns']) and df.equals(before)
        parts = {c: L.partition_of(res[c].tolist()) for c in new}
        scores = {}
        lab = job.get('label')
        if lab and job.get('score'):
            lc = codes_of(res[lab])
            for c in new:
                names = c.split(job.get('join', ' AND '))
                tup = pd.Series([repr(t) for t in zip(*[res[n].tolist() for n in names])])
                ch, ct = codes_of(res[c]), codes_of(tup)
                # the self-pair shortcut depends on the codes themselves (C02), which follow the sort order of the
                # opaque hash strings: compare corrected scores only when the shortcut status agrees
                flags = (False, True) if np.array_equal(ch, lc) == np.array_equal(ct, lc) else (False,)
                scores[c] = [[float(est(ch, lc, np.float32(1.0), flag)), float(est(ct, lc, np.float32(1.0), flag))] for flag in flags]
        out.append({'new': new, 'parts': parts, 'untouched': bool(untouched), 'nrows': int(res.shape[0]),
                    'one_value_per_row': bool(all(res[c].shape == (len(job['frame'][job['columns'][0]]),) for c in new)),
                    'scores': scores, 'counts': {repr(k): v for k, v in CR.GLOBAL_PRIOR_COMB_COUNTS.items()}})
    return out


def op_combined_indexed(job):
    """compute_combined_features on frames whose ROW INDEX is not 0..n-1 (rows shuffled, filtered or sorted without
    reset_index): returned per index shape: for every new column the positional partition and the partition of the value
    tuples, row count and whether the original columns are unchanged."""
    import random
    rng = random.Random(job['seed'])
    n = job['rows']
    vals = job['values']
    base = pd.DataFrame({c: [rng.choice(vals) for _ in range(n)] for c in job['columns'] if c != 'label'})
    base['label'] = [str(i % 2) for i in range(n)]
    base = base[job['columns']]
    out = {}
    for shape in ('default', 'shuffled', 'filtered', 'sorted'):
        if shape == 'default':
            df = base.copy()
        elif shape == 'shuffled':
            df = base.sample(frac=1, random_state=job['seed'])
        elif shape == 'filtered':
            df = base[[i % 3 != 1 for i in range(n)]]
        else:
            df = base.sort_values(job['columns'][0], kind='stable')
        before = df.copy(deep=True)
        args = L.make_args(**job.get('args', {}))
        L.reset_globals()
        res = CR.compute_combined_features(df, args, L.Pbar(), False)
        new = [c for c in res.columns if c not in job['columns']]
        rec = {'nrows_in': int(before.shape[0]), 'nrows_out': int(res.shape[0]), 'new': new,
               'untouched': bool(res.shape[0] == before.shape[0] and all(res[c].tolist() == before[c].tolist() for c in job['columns'])), 'parts': {}}
        if res.shape[0] == before.shape[0]:
            for c in new:
                names = c.split(' AND ')
                rec['parts'][c] = [L.partition_of([str(v) for v in res[c].tolist()]), L.partition_of([repr(t) for t in zip(*[before[x].tolist() for x in names])])]
        out[shape] = rec
    return out


def op_combined_large(job):
    """A frame with very many distinct joint values (built here from the seed): the interaction feature must
    separate all of them (C10 allows only 64-bit hash collisions).  job: rows, seed, args."""
    import random
    rng = random.Random(job['seed'])
    n = job['rows']
    user = [str(v) for v in rng.sample(range(10 ** 7), n)]            # digits-only ids, all distinct
    site = [f's{rng.randrange(7)}' for _ in range(n)]
    half = [user[i // 2] for i in range(n)]                           # every id twice
    df = pd.DataFrame({'user': user, 'site': site, 'half': half, 'label': [str(i % 2) for i in range(n)]})
    args = L.make_args(**job.get('args', {}))
    L.reset_globals()
    res = CR.compute_combined_features(df, args, L.Pbar(), False)
    out = {}
    for c in res.columns[4:]:
        names = c.split(' AND ')
        out[c] = [int(res[c].nunique()), int(len(set(zip(*[df[x] for x in names]))))]
    return out


OPS = {k[3:]: v for k, v in list(globals().items()) if k.startswith('op_')}


def main():
    req = L.read_req()
    # other ops live in sibling modules to keep this file readable
    for modname in req.get('modules', []):
        mod = __import__('harness.' + modname, fromlist=['OPS'])
        OPS.update(mod.OPS)
    results = []
    for job in req['jobs']:
        try:
            results.append({'ok': OPS[job['op']](job)})
        except BaseException as e:  # noqa: BLE001 - the error IS the observation
            if isinstance(e, (KeyboardInterrupt,)):
                raise
            results.append({'error': repr(e)[:500], 'type': type(e).__name__, 'tb': traceback.format_exc()[-1500:]})
    L.reply({'results': results})


if __name__ == '__main__':
    main()
