"""pipe_child operations for the sketches (C14, C15)."""
from __future__ import annotations

import random

import numpy as np

from outrank.algorithms.sketches.counting_cms import CountMinSketch, cms_hash
from outrank.algorithms.sketches.counting_counters_ordinary import PrimitiveConstrainedCounter
from outrank.algorithms.sketches.counting_ultiloglog import HyperLogLogWCache


def small_hll(p, cap):
    h = HyperLogLogWCache(0.02)
    h.p = p
    h.m = 1 << p
    h.width = 64 - p
    h.warmup_size = cap
    return h


def op_hll_buckets(job):
    out = {}
    for v in job['values']:
        h = small_hll(job['p'], 0)
        h.add(v)                      # warm-up capacity 0: the first add converts and updates one register (public surface only)
        nzs = np.nonzero(h.M)[0].tolist()
        out[v] = nzs[0] if len(nzs) == 1 else None
    return out


def op_hll_replay(job):
    out = []
    for hist in job['histories']:
        h = small_hll(job['p'], job['cap'])
        sizes = []
        for v in hist:
            h.add(v)
            sizes.append(int(len(h)))
        nz = np.nonzero(h.M)[0].tolist() if h.hll_flag else []
        out.append({'sizes': sizes, 'size': int(len(h)), 'hll': bool(h.hll_flag), 'warm': sorted(h.warmup_set) if not h.hll_flag else [], 'nz': nz})
    return out


def op_hll_fullscale(job):
    """job: pattern, limit (distinct values), seed.  Returns events [{new, dup, size}]."""
    rng = random.Random(job['seed'])
    CAP = 1 << 18
    limit = job['limit']
    pattern = job['pattern']
    mk = (lambda i: f'{(i * 2654435761) & 0xffffffff:08x}') if job.get('values') == 'hex' else (lambda i: f'value-{i}-é')
    if job.get('values') == 'mixed':
        # values of several types: small ints, the strings that print like them, and other strings - all distinct values
        mk = lambda i: (i if i < 30000 else (str(i - 30000) if i < 60000 else f'value-{i}-é'))
    h = HyperLogLogWCache(0.02)
    ev = []
    n = 0
    if job.get('companion'):
        # a second sketch in the same process that also leaves its warm-up phase (two high-cardinality columns of one run):
        # it must not influence the sketch under observation
        h2 = HyperLogLogWCache(0.02)
        for i in range((1 << 18) + 20000):
            h2.add(f'other-{i}')

    def add_new(k, log_each=False):
        nonlocal n
        if log_each:
            for _ in range(k):
                h.add(mk(n)); n += 1
                ev.append({'e': 'add', 'new': 1, 'dup': 0, 'size': int(len(h))})
        else:
            for _ in range(k):
                h.add(mk(n)); n += 1
            ev.append({'e': 'add', 'new': k, 'dup': 0, 'size': int(len(h))})

    def add_dup(k, log_each=True):
        for _ in range(k):
            h.add(mk(rng.randrange(n)))
            if log_each:
                ev.append({'e': 'add', 'new': 0, 'dup': 1, 'size': int(len(h))})
        if not log_each:
            ev.append({'e': 'add', 'new': 0, 'dup': k, 'size': int(len(h))})

    if pattern == 'increasing':
        add_new(CAP - 64); add_new(128, True); add_new(max(0, min(limit, CAP + 3000) - n))
        while n < limit:
            add_new(min(1 << 16, limit - n))
    elif pattern == 'dup-at-boundary':
        add_new(CAP - 3); add_new(3, True); add_dup(40); add_new(5, True); add_dup(40); add_new(max(0, limit - n))
    elif pattern == 'dup-heavy':
        add_new(1000)
        while n < CAP - 200:
            add_new(min(20000, CAP - 200 - n)); add_dup(2000, False)
        for _ in range(400):
            add_new(1, True); add_dup(1)
        add_new(max(0, limit - n)); add_dup(5000, False)
    elif pattern == 'shuffled':
        idx = list(range(min(limit, CAP + 2000)))
        rng.shuffle(idx)
        seen = 0
        for k, i in enumerate(idx):
            h.add(mk(i)); seen += 1
            if abs(seen - CAP) <= 32 or seen % 50000 == 0 or k == len(idx) - 1:
                ev.append({'e': 'add', 'new': seen - sum(e['new'] for e in ev), 'dup': 0, 'size': int(len(h))})
        n = seen
    elif pattern == 'readd-trigger':
        add_new(CAP)
        for _ in range(60):
            add_new(1, True)                       # the first of these triggers the conversion
            h.add(mk(n - 1))                       # re-add the value just added
            ev.append({'e': 'add', 'new': 0, 'dup': 1, 'size': int(len(h))})
    elif pattern == 'exactly-cap-then-dups':
        add_new(CAP); add_dup(200); add_dup(20000, False)
    return {'events': ev, 'distinct': n}


def op_cms_stream(job):
    """job: depth, width, npseed, stream [[item, w], ...], unseen item.  Events for TraceCMS."""
    np.random.seed(job['npseed'])
    cms = CountMinSketch(job['depth'], job['width'])
    ids = {}
    ev = []

    def locs(x):
        return [int(cms_hash(x, cms.hash_seeds[i], cms.width)) for i in range(cms.depth)]
    unseen = job['unseen']
    for x, w in job['stream']:
        lst = list(x) if job.get('via') == 'batch' else [x]
        for y in lst:
            ids.setdefault(y, len(ids) + 1)
        if job.get('via') == 'add':
            cms.add(x, w)
        else:
            cms.batch_add(lst, w)
        qs = [[i, int(cms.query(y))] for y, i in ids.items()]
        qs.append([0, int(cms.query(unseen))])
        ev.append({'e': 'update', 'items': [ids[y] for y in lst], 'w': int(w), 'queries': qs, 'rowsums': [int(v) for v in cms.get_matrix().sum(axis=1)]})
    return ev


def op_counter_replay(job):
    out = []
    for hist in job['histories']:
        c = PrimitiveConstrainedCounter(job['bound'])
        for v in hist:
            if job.get('probe'):
                # a caller watching running counts: looking a value up (seen or not yet seen) is not feeding it
                for q in (v, 'never-added-' + str(len(hist))):
                    try:
                        c.default_counter[q]
                    except KeyError:
                        pass
            c.add(v)
        out.append({str(k): int(v) for k, v in c.default_counter.items() if not job.get('probe') or int(v) > 0})
    return out


OPS = {k[3:]: v for k, v in list(globals().items()) if k.startswith('op_')}


def op_parse_lines(job):
    """generic_line_parser on rendered lines.  job: data_source, lines [str], fw_map, header."""
    import argparse
    from outrank.core_utils import generic_line_parser
    args = argparse.Namespace(data_source=job['data_source'])
    out = []
    for ln in job['lines']:
        try:
            out.append(generic_line_parser(ln, job.get('delimiter', ','), args, job.get('fw_map'), job.get('header')))
        except Exception as e:  # noqa: BLE001
            out.append({'error': repr(e)[:200]})
    return out


def op_parse_namespace(job):
    import os
    import tempfile
    from outrank.core_utils import parse_namespace
    out = []
    for text in job['files']:
        fd, path = tempfile.mkstemp(suffix='.csv')
        with os.fdopen(fd, 'w') as f:
            f.write(text)
        try:
            fs, m = parse_namespace(path)
            out.append({'floats': sorted(fs), 'map': m})
        finally:
            os.unlink(path)
    return out


OPS = {k[3:]: v for k, v in list(globals().items()) if k.startswith('op_')}


def op_vault(job):
    import outrank.feature_transformations.feature_transformer_vault as vault
    return {k: dict(v) for k, v in vault._tr_global_namespace.items()}


def op_transformer_collection(job):
    from outrank.feature_transformations.ranking_transformers import FeatureTransformerGeneric
    out = []
    for preset in job['presets']:
        try:
            t = FeatureTransformerGeneric(set(), preset=preset)
            out.append(dict(t.transformer_collection))
        except Exception as e:  # noqa: BLE001
            out.append({'__error__': repr(e)[:200]})
    return out


def op_transform_columns(job):
    """construct_new_features on single-column frames.  items: {values: [str], preset}."""
    import logging
    import warnings
    import pandas as pd
    from outrank.feature_transformations.ranking_transformers import FeatureTransformerGeneric
    logging.disable(logging.CRITICAL)
    out = []
    with warnings.catch_warnings():
        warnings.simplefilter('ignore')
        np.seterr(all='ignore')
        for it in job['items']:
            df = pd.DataFrame({'x': [float('nan') if v is None else v for v in it['values']], 'other': ['k'] * len(it['values'])})      # None = a real missing cell
            before = df.copy(deep=True)
            try:
                t = FeatureTransformerGeneric({'x'}, preset=it['preset'])
                res = t.construct_new_features(df)
            except Exception as e:  # noqa: BLE001
                out.append({'error': repr(e)[:300]})
                continue
            new = [c for c in res.columns if c not in ('x', 'other')]
            want = it.get('want')
            out.append({'new': new if want is None else [c for c in new if c in want],
                        'values': {c: [str(v) for v in res[c].tolist()] for c in new if want is None or c in want},
                        'untouched': bool(res[['x', 'other']].equals(before[['x', 'other']]))})
    return out


OPS = {k[3:]: v for k, v in list(globals().items()) if k.startswith('op_')}


def op_transform_whole_column(job):
    """Long columns with repeated values of unequal multiplicity and block-wise different ranges: every emitted column
    must hold the vault's formula evaluated on the WHOLE column, and the emission rule is judged on that text.
    job: rows, seed, presets (comma list).  Returns the list of mismatches."""
    import logging
    import random
    import warnings
    import pandas as pd
    import outrank.feature_transformations.feature_transformer_vault as vault
    from outrank.feature_transformations.ranking_transformers import FeatureTransformerGeneric
    logging.disable(logging.CRITICAL)
    rng = random.Random(job['seed'])
    n = job['rows']
    pool = [0, 1, 2, 3, 5, 8, 13, 48, 100]
    weights = [30, 20, 10, 7, 5, 3, 2, 2, 1]
    vals = []
    for i in range(n):
        v = rng.choices(pool, weights)[0]
        if i >= 2 ** 14 and rng.random() < 0.2:
            v = rng.choice([250, 400, 999])            # later blocks reach larger values than the first 2**14 rows
        if rng.random() < 0.05:
            v = -v
        vals.append('' if rng.random() < 0.03 else (f'"{v}"' if rng.random() < 0.02 else str(v)))
    df = pd.DataFrame({'x': vals, 'other': ['k'] * n})
    bad = []
    with warnings.catch_warnings():
        warnings.simplefilter('ignore')
        np.seterr(all='ignore')
        res = FeatureTransformerGeneric({'x'}, preset=job['presets']).construct_new_features(df)
        X = np.array([0.0 if len(t) == 0 else float(t) for t in (str(v).replace('"', '') for v in vals)])
        union = {}
        for pr in job['presets'].split(','):
            union.update(vault._tr_global_namespace[pr])
        emitted = [c for c in res.columns if c not in ('x', 'other')]
        checked = 0
        for k, expr in union.items():
            ref = eval(expr, {'np': np, 'X': X})          # the named formula on the whole column
            ref = np.asarray(ref).astype(str)
            if ref.shape != (n,):
                continue
            u, c = np.unique(ref, return_counts=True)
            keep = len(u) > 1 and np.max(c) / np.sum(c) < 0.8 and np.count_nonzero(ref == 'nan') / n < 0.75
            share = np.max(c) / np.sum(c)
            if abs(share - 0.8) < 1e-9:
                continue
            name = 'x' + k
            checked += 1
            if keep != (name in emitted):
                bad.append({'column': name, 'why': f'{"emitted" if name in emitted else "dropped"}; the formula on the whole column has {len(u)} distinct values, majority share {share:.3f} -> {"emit" if keep else "drop"}'})
            elif keep:
                got = np.asarray(res[name]).astype(str)
                diff = np.nonzero(got != ref)[0]
                if len(diff):
                    i = int(diff[0])
                    bad.append({'column': name, 'why': f'{len(diff)} rows differ from the named formula on the whole column, e.g. row {i}: x={vals[i]!r} got {got[i]} expected {ref[i]}'})
    return {'bad': bad[:20], 'nbad': len(bad), 'checked': checked, 'emitted': len(emitted)}


def op_rank3mr(job):
    import warnings
    from outrank.algorithms.importance_estimator import rank_features_3MR
    out = []
    with warnings.catch_warnings():
        warnings.simplefilter('ignore')
        for it in job['items']:
            # feature keys as the caller has them: names, or the integer column ids of a header-less frame ('int_keys')
            K = (lambda x: int(x)) if it.get('int_keys') else (lambda x: x)
            rel = {K(k_): v_ for k_, v_ in it['rel'].items()}
            red = {(K(g), K(f)): v for g, f, v in it['red']}
            rln = {(K(g), K(f)): v for g, f, v in it['rln']}
            try:
                df = rank_features_3MR(rel, red, rln, it['strategy'], it['alpha'], it['beta'])
                out.append({'order': [str(x) if x is not None else None for x in df['Feature'].tolist()], 'ranks': [int(x) for x in df['3MR_Ranking'].tolist()]})
            except Exception as e:  # noqa: BLE001
                out.append({'error': repr(e)[:200]})
    return out


OPS = {k[3:]: v for k, v in list(globals().items()) if k.startswith('op_')}


def op_summary_run(job):
    import argparse
    import os
    import shutil
    import tempfile
    import logging
    import pandas as pd
    from outrank.task_summary import outrank_task_result_summary
    logging.disable(logging.CRITICAL)
    out = []
    for it in job['items']:
        wd = tempfile.mkdtemp(prefix='sum.')
        try:
            pd.DataFrame(it['table'], columns=['FeatureA', 'FeatureB', 'Score']).to_csv(os.path.join(wd, 'pairwise_ranks.tsv'), sep='\t', index=False)
            # --tldr is a string option (default 'True'): the on-screen preview must not change what is written
            args = argparse.Namespace(output_folder=wd, label_column=it['label'], heuristic=it['heuristic'], interaction_order=it['order'], tldr=it.get('tldr', False))
            try:
                import contextlib
                import io
                with contextlib.redirect_stdout(io.StringIO()):
                    outrank_task_result_summary(args)
            except Exception as e:  # noqa: BLE001
                out.append({'error': repr(e)[:300]})
                continue
            s = pd.read_csv(os.path.join(wd, 'feature_singles.tsv'), sep='\t', keep_default_na=False)
            fl = lambda v: float('nan') if v == '' else float(v)
            singles = [[str(r[0]), fl(r[1])] for r in s.itertuples(index=False)]
            agg = None
            p = os.path.join(wd, 'feature_singles_aggregated.tsv')
            if os.path.exists(p):
                try:
                    a = pd.read_csv(p, sep='\t', keep_default_na=False)
                    agg = [[str(r[0]), fl(r[1])] for r in a.itertuples(index=False)]
                except Exception:  # empty file
                    agg = []
            out.append({'singles': singles, 'agg': agg, 'score_column': list(s.columns)[1] if len(s.columns) > 1 else None})
        finally:
            shutil.rmtree(wd, ignore_errors=True)
    return out


OPS = {k[3:]: v for k, v in list(globals().items()) if k.startswith('op_')}
