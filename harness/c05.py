"""C05 - each emitted score is the selected heuristic applied to the two columns."""
from __future__ import annotations

import math
import os
import random
import re
import sys

sys.path.insert(0, os.path.dirname(os.path.dirname(os.path.abspath(__file__))))
from harness import engine as E
from harness import mi_oracle as O
from harness import pipe_common as PC

PID = 'C05'
STATEMENT_NAMES = ['MI', 'MI-numba-3mr', 'MI-numba-randomized', 'max-value-coverage', 'correlation-Pearson', 'AMI', 'Constant']
VALMAPS = [['', 'a', 'é'], ['10', '9', 'é'], ['', '0', '1'], ['A', 'a', 'b'], [' ', 'x y', '~']]


def documented_names():
    """heuristic names used in the project's own documentation / examples / scripts."""
    names = {}
    roots = ['README.md', 'docs', 'examples', 'scripts', 'benchmarks', 'outrank/__main__.py', 'outrank/task_selftest.py', 'outrank/core_utils.py']
    for r in roots:
        path = os.path.join(E.REPO, r)
        files = []
        if os.path.isfile(path):
            files = [path]
        elif os.path.isdir(path):
            for d, _, fs in os.walk(path):
                files += [os.path.join(d, f) for f in fs if f.endswith(('.md', '.sh', '.py', '.txt', '.html'))]
        for f in files:
            try:
                txt = open(f, encoding='utf-8', errors='replace').read()
            except Exception:
                continue
            for m in re.finditer(r'--heuristic[ =]+["\']?([A-Za-z0-9_.-]+)', txt):
                names.setdefault(m.group(1), os.path.relpath(f, E.REPO))
            for m in re.finditer(r'conduct_self_test\(\s*["\']([A-Za-z0-9_.-]+)["\']', txt):
                names.setdefault(m.group(1), os.path.relpath(f, E.REPO))
    return names


def sset(names):
    return '{' + ', '.join('"' + n + '"' for n in sorted(names)) + '}'


def close(a, b, tol):
    if a is None or b is None:
        return a is b
    if isinstance(a, float) and isinstance(b, float) and math.isnan(a) and math.isnan(b):
        return True
    return abs(a - b) <= tol


def main():
    tier, seed, replay = E.tier_seed()
    V = E.Verdict(PID, tier, seed)
    rng = random.Random(seed * 141650939 + 5)
    import atexit
    import json as _json
    os.makedirs(E.WORK_ROOT, exist_ok=True)
    refjson = os.path.join(E.WORK_ROOT, f'c05_reference_{os.getpid()}.json')
    with open(refjson, 'w') as f_:
        _json.dump({'desc': {'features': [], 'fields': []}}, f_)
    atexit.register(lambda: os.path.exists(refjson) and os.unlink(refjson))
    V.coverage['rule'] = ('TLC: Scoring.tla enumerates every frame (label + 2 feature columns x 4 rows; thorough adds 5 rows / 3 features) and computes for every column pair the '
                          'acceptable results of each scorer kind (exact log-vectors for the MI family with the label on the conditioning side, exact rationals for coverage, '
                          'tags for Pearson/AMI); DocumentedNotConstant on the dispatch table with the names extracted from the repository documentation at check time.  Each '
                          'frame is rendered with string values (empty, unicode, digit strings whose string order differs from numeric order), scored by the real '
                          'mixed_rank_graph under a heuristic name (all names rotate over the frames; pairwise and target-only) and every triplet compared.  A probe frame is scored '
                          'under every documented name.  non-trivial = distinct frames where no column is constant')
    V.assumptions += ['Pearson and adjusted MI are library formulas: the harness evaluates scipy/sklearn on independently computed rank codes (the spec pins columns, coding and side)',
                      'the high-cardinality family (2400-4000 rows, 1200-4000 category codes per column) is seeded, not exhaustive']

    doc = documented_names()
    surrogate = {n for n in doc if n.startswith('surrogate')}
    documented = (set(doc) - surrogate) | set(STATEMENT_NAMES) - {'Constant'}
    known = {'MI', 'MI-numba-3mr', 'MI-numba', 'MI-numba-randomized', 'max-value-coverage', 'correlation-Pearson', 'AMI', 'Constant'}
    for n in sorted(documented - known):
        V.violation(f'undocumented-dispatch:{n}', f'documented heuristic name {n!r} ({doc.get(n)}) is not in the specified dispatch table', {'name': n})
    V.notes['documented_names'] = {n: doc.get(n, 'statement') for n in sorted(documented | surrogate)}
    V.notes['surrogate_names_not_checked'] = sorted(surrogate)

    confs = [('N4-F2', {'N': 4, 'NFeat': 2, 'FeatVals': '{0,1,2}', 'OtherVals': '{0,1}', 'LabelVals': '{0,1}'}),
             # a label with MORE values than the feature (orientation of the asymmetric score)
             ('N4-F1-label3', {'N': 4, 'NFeat': 1, 'FeatVals': '{0,1}', 'OtherVals': '{0,1}', 'LabelVals': '{0,1,2}'})]
    if tier != 'quick':
        confs += [('N5-F2', {'N': 5, 'NFeat': 2, 'FeatVals': '{0,1}', 'OtherVals': '{0,1}', 'LabelVals': '{0,1}'}),
                  ('N3-F3', {'N': 3, 'NFeat': 3, 'FeatVals': '{0,1,2}', 'OtherVals': '{0,1}', 'LabelVals': '{0,1,2}'}),
                  ('N5-F1-label3', {'N': 5, 'NFeat': 1, 'FeatVals': '{0,1}', 'OtherVals': '{0,1}', 'LabelVals': '{0,1,2}'})]
    names_cycle = list(STATEMENT_NAMES)
    for label, c in confs:
        wd = E.workdir('c05')
        try:
            c = dict(c, Names=sset(STATEMENT_NAMES), Documented=sset(documented & known))
            cfg = E.write_cfg(os.path.join(wd, 'mc.cfg'), constants=c, invariants=['DocumentedNotConstant', 'PluginSymmetric', 'SelfScore', 'CoverageRange', 'EmitDispatch', 'Emit'])
            res = E.run_tlc('Scoring', cfg, timeout=1800, coverage=(label == 'N4-F2' and tier == 'quick'))
            E.require_ok(res, label)
            V.add_tlc(res, f'Scoring/{label}')
            V.tlc_violation(res, f'Scoring/{label}')
            dispatch = dict(next(E.extract_tuples(res.stdout, 'DISPATCH'))[1])
            cases = [(t[1], t[2]) for t in E.extract_tuples(res.stdout, 'CASE')]
        finally:
            E.cleanup(wd)
        if not cases:
            raise E.MachineryError('no cases emitted')
        n = c['N']
        jobs, meta = [], []
        for k, (cols, acc) in enumerate(cases):
            per_frame = names_cycle if (tier != 'quick' and k % 4 == 0) else (['MI-numba-randomized', names_cycle[(k + seed) % len(names_cycle)]] if 'label3' in label else [names_cycle[(k + seed) % len(names_cycle)]])
            vm = VALMAPS[rng.randrange(len(VALMAPS))]
            nfeat = len(cols) - 1
            fnames = [f'f{i}' for i in range(1, nfeat + 1)]
            order = fnames[:]
            order.insert(rng.randrange(nfeat + 1), 'label')
            frame = {'label': [vm[v] for v in cols[0]]}
            for i, fn in enumerate(fnames):
                frame[fn] = [vm[v] for v in cols[i + 1]]
            for hn in per_frame:
                mode = 'False' if (k % 5) else 'True'
                extra_a = {}
                if hn.startswith('MI') and (k + len(hn)) % 7 == 0:
                    extra_a = {'reference_model_JSON': refjson}      # a reference model (no combined features): the scores of the batch's own columns are unchanged
                jobs.append({'op': 'rank_graph', 'columns': order, 'frame': frame, 'batches': 1, 'libscores': dispatch[hn] in ('pearson', 'ami'),
                             'args': dict({'heuristic': hn, 'label_column': 'label', 'target_ranking_only': mode, 'combination_number_upper_bound': 10 ** 6}, **extra_a)})
                meta.append((k, hn))
        got = PC.pipe_eval(jobs, modules=['pipe_ops'])
        nontriv = 0
        idx = {'label': 0}
        for (k, hn), job, r in zip(meta, jobs, got):
            cols, acc = cases[k]
            key = f'frame={ {c_: job["frame"][c_] for c_ in job["columns"]} } heuristic={hn} target_only={job["args"]["target_ranking_only"]}'
            if all(len(set(col)) > 1 for col in cols):
                nontriv += 1
            if r is None or 'ok' not in r:
                V.violation(f'raises:{hn}:{key}', f'mixed_rank_graph failed: {PC.failure_text(r)}', job)
                continue
            kind = dispatch[hn]
            ob = r['ok'][0]
            for a, b, s in ob['trip']:
                ia = 0 if a == 'label' else int(a[1:])
                ib = 0 if b == 'label' else int(b[1:])
                p = (min(ia, ib), max(ia, ib))
                if kind == 'zero':
                    ok = s == 0.0
                    exp = [0.0]
                elif kind in ('pearson', 'ami'):
                    e = ob['lib'][a + '\x00' + b][0 if kind == 'pearson' else 1]
                    exp = [e]
                    ok = close(s, e, 1e-9)
                else:
                    exp = []
                    for rr in acc[kind][p]:
                        if rr[0] == 'vec':
                            exp.append(O.vec_value(rr[1], n))
                        else:
                            exp.append(rr[1] / rr[2])
                    ok = any(close(s, e, 3e-6 * (2 + abs(e))) for e in exp)
                if not ok:
                    V.violation(f'score:{hn}:{key} pair=({a},{b})', f'score {s!r}; the heuristic ({kind}) applied to the two columns gives {exp}', job)
                    break
        V.count(evaluations=len(jobs), nontrivial=nontriv, traces=len(jobs))
        mid = len(jobs) // 2
        V.add_sample({'frame': jobs[mid]['frame'], 'heuristic': jobs[mid]['args']['heuristic'], 'real_triplets': (got[mid].get('ok') or [{}])[0].get('trip'),
                      'spec': {kd: {str(p): sorted(map(str, v)) for p, v in acc_.items()} for kd, acc_ in cases[meta[mid][0]][1].items()}})

    # ---- high-cardinality batches (thousands of category codes per column): coverage and plug-in MI against exact counts
    from collections import Counter
    hjobs, hmeta = [], []
    for hk in range(2 if tier == 'quick' else 6):
        n_h = rng.choice([2400, 3000, 4000])
        uid = [f'{i:05d}' for i in rng.sample(range(10 ** 5), n_h)]                       # every row distinct
        nsid = rng.choice([1200, 1500, 2000])
        sid = [f's{(i * 7) % nsid}é' for i in range(n_h)]
        k40 = [f'k{(i // nsid + i) % 40}' for i in range(n_h)]
        lab3 = [str((i * 11 + (i // 7)) % 3) for i in range(n_h)]
        frame = {'uid': uid, 'sid': sid, 'k40': k40, 'label': lab3}
        for hn in ('max-value-coverage', 'MI-numba-3mr'):
            for mode in ('False', 'True'):
                hjobs.append({'op': 'rank_graph', 'columns': ['uid', 'label', 'sid', 'k40'], 'frame': frame, 'batches': 1,
                              'args': {'heuristic': hn, 'label_column': 'label', 'target_ranking_only': mode, 'combination_number_upper_bound': 10 ** 6}})
                hmeta.append((hk, hn, mode, n_h, nsid))
    hg = PC.pipe_eval(hjobs, modules=['pipe_ops'])
    for (hk, hn, mode, n_h, nsid), job, r in zip(hmeta, hjobs, hg):
        key = f'high-cardinality frame #{hk} rows={n_h} distinct(uid)={n_h} distinct(sid)={nsid} heuristic={hn} target_only={mode} seed={seed}'
        if r is None or 'ok' not in r:
            V.violation(f'raises:{hn}:{key}', f'mixed_rank_graph failed: {PC.failure_text(r)}', {'key': key})
            continue
        fr = job['frame']
        for a, b, sc in r['ok'][0]['trip']:
            if hn == 'max-value-coverage':
                e = max(Counter(zip(fr[a], fr[b])).values()) / n_h
                ok = close(sc, e, 1e-12)
            else:
                ca, cb, cab = Counter(fr[a]), Counter(fr[b]), Counter(zip(fr[a], fr[b]))
                e = sum(c_ / n_h * math.log(c_ * n_h / (ca[x_] * cb[y_])) for (x_, y_), c_ in cab.items())
                ok = close(sc, e, 3e-5 * (2 + abs(e)))
            if not ok:
                V.violation(f'score:{hn}:{key} pair=({a},{b})', f'score {sc!r}; the heuristic applied to the two columns gives {e!r} (exact counts over the strings)', {'key': key, 'pair': [a, b]})
                break
    V.count(evaluations=len(hjobs), nontrivial=len(hjobs), traces=len(hjobs))

    # ---- probe: every documented / statement name must not degrade to a constant score
    n = 40
    lab = [str(rng.randrange(2)) for _ in range(n)]
    frame = {'label': lab, 'sig': [v if rng.random() < 0.8 else str(1 - int(v)) for v in lab], 'noise': [rng.choice(['p', 'q', 'r']) for _ in range(n)],
             'mixed': [v + rng.choice(['', 'é']) for v in lab]}
    pjobs = [{'op': 'rank_graph', 'columns': ['sig', 'label', 'noise', 'mixed'], 'frame': frame, 'batches': 1,
              'args': {'heuristic': hn, 'label_column': 'label', 'target_ranking_only': 'False', 'combination_number_upper_bound': 10 ** 6}} for hn in sorted(documented)]
    pg = PC.pipe_eval(pjobs, modules=['pipe_ops'])
    for hn, job, r in zip(sorted(documented), pjobs, pg):
        if r is None or 'ok' not in r:
            V.violation(f'raises:{hn}:probe', f'mixed_rank_graph failed on the probe frame: {PC.failure_text(r)}', job)
            continue
        scores = [s for _, _, s in r['ok'][0]['trip']]
        if len({round(s, 12) for s in scores if s == s}) <= 1:
            V.violation(f'constant-score:{hn}', f'heuristic name {hn!r} (documented in {doc.get(hn, "the property statement")}) yields the constant score {scores[0]!r} for every pair of the probe frame', job)
    V.count(evaluations=len(pjobs), nontrivial=len(pjobs), traces=len(pjobs))
    V.coverage['exhaustive'] = True
    return V.finish()


if __name__ == '__main__':
    try:
        sys.exit(main())
    except E.MachineryError as e:
        print(f'MACHINERY-FAILURE {PID}: {e}', file=sys.stderr)
        sys.exit(2)
    except Exception as e:  # unexpected harness error: machinery failure, never a verdict
        import traceback
        traceback.print_exc()
        print(f'MACHINERY-FAILURE {PID}: unexpected {type(e).__name__}: {e}', file=sys.stderr)
        sys.exit(2)
