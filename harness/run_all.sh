#!/bin/sh
# usage: run_all.sh [tier] [parallelism]  - every check on the current tree, evidence rewritten; summary on stdout
TIER="${1:-quick}"; PAR="${2:-4}"
cd /verif && mkdir -p .work/runall
seq -w 1 20 | xargs -P "$PAR" -I{} sh -c "./check C{} --tier $TIER > .work/runall/C{}.log 2>&1; echo \"C{} rc=\$?\" >> .work/runall/summary.\$\$" 
cat .work/runall/summary.* | sort; rm -f .work/runall/summary.*
grep -h "^\[C..\]" .work/runall/C*.log
