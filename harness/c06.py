"""C06 - the rank graph covers exactly the requested pairs, in both orientations."""
from __future__ import annotations

import json
import os
import random
import sys

sys.path.insert(0, os.path.dirname(os.path.dirname(os.path.abspath(__file__))))
from harness import engine as E
from harness import pipe_common as PC

PID = 'C06'
INVS = ['EnumerationIsSpec', 'PairsExact', 'BothOrientations', 'ConstantOnce', 'NoForeignColumn', 'RelOnlyWithLabel', 'ScheduleIndependent', 'ResultsComplete']
HEUR = {'scoring': ['MI-numba-randomized', 'MI', 'max-value-coverage', 'correlation-Pearson'], 'scoring3mr': ['MI-numba-3mr'], 'Constant': ['Constant']}

# id -> name maps whose string order is the id order; the label's id differs per map
NAMEMAPS = {
    1: {1: 'Label', 2: 'a', 3: 'aLabel', 4: 'b AND_REL c', 5: 'c AND_REL Label'},
    2: {1: 'a', 2: 'label', 3: 'labelx', 4: 'm AND_REL n', 5: 'z AND_REL a'},
    3: {1: 'a b', 2: 'é', 3: 'ñ-target', 4: 'ñ-target AND_REL a b', 5: 'ö AND_REL é'},
}


def consts(label, **kw):
    c = {'Universe': '{1,2,3,4,5}', 'Rel': '{4,5}', 'Label': label, 'MinCols': 1, 'MaxCols': 4, 'Modes': '{"target","pairwise"}',
         'Heuristics': '{"scoring","scoring3mr","Constant"}', 'Caps': '{1,3,50}', 'Max3mr': 10000, 'Batches': 2, 'Workers': 1, 'ChunkSize': 1,
         'PoolKind': '"amap"', 'ShuffleAll': 'FALSE', 'RelDiagonal': 'FALSE'}
    c.update(kw)
    return c


def run_spec(V, label, c, emit='EmitConfig', coverage=False):
    wd = E.workdir('c06')
    try:
        cfg = E.write_cfg(os.path.join(wd, 'mc.cfg'), constants=c, invariants=INVS + ([emit] if emit else []))
        res = E.run_tlc('RankGraph', cfg, coverage=coverage, timeout=900)
        E.require_ok(res, label)
        V.add_tlc(res, label)
        V.tlc_violation(res, label)
        cases = []
        if emit:
            for t in E.extract_tuples(res.stdout, 'CASE'):
                _, cols, mode, heur, cap, spec_pairs, sels = t
                cases.append({'cols': list(cols), 'mode': mode, 'heur': heur, 'cap': cap,
                              'spec_pairs': sorted(sorted(p) for p in spec_pairs),
                              'sels': [[list(p) for p in E.fun_to_list(s)] if s else [] for s in E.fun_to_list(sels)]})
        return res, cases
    finally:
        E.cleanup(wd)


def mkframe(rng, names, nrows=12):
    fr = {n: [rng.choice(['', 'x', 'y', 'é', '10', '9']) if i else str(r % 2) for r in range(nrows)] for i, n in enumerate(names)}
    if len(names) >= 2 and rng.random() < 0.35:
        fr[names[rng.randrange(len(names))]] = ['k'] * nrows      # a column that is constant in the batch: some heuristics score it NaN
    return fr


def check_batch(V, key, job, kind, cap, ncand, names_all, spec_pairs, label_name, trip, ndup=0):
    """The C06 clauses on one recorded batch (harness-side mirror of TraceRankGraph.RecordOK, used
    to name the failing clause; TLC gives the verdict for the seeded runs)."""
    pairs = {frozenset((a, b)) for a, b, _ in trip}
    sp = {frozenset(p) for p in spec_pairs}
    bad = False
    if not pairs <= sp:
        extra = sorted(sorted(p) for p in pairs - sp)[:4]
        V.violation('foreign-pair:' + key, f'evaluated pairs not requested: {extra}', job); bad = True
    # the evaluated pairs are reduced only by the cap: exactly min(cap, #candidates) candidates, of which at most
    # `ndup` are repetitions of a pair already listed (diagonal pairs are listed twice in pairwise mode)
    if not (min(cap, ncand) - ndup <= len(pairs) <= min(cap, ncand)):
        V.violation('count:' + key, f'{len(pairs)} distinct pairs evaluated, cap={cap}, candidates={ncand} ({ndup} repeated)', job); bad = True
    if cap >= ncand and pairs != sp and pairs <= sp:
        V.violation('missing-pair:' + key, f'requested pairs not evaluated: {sorted(sorted(p) for p in sp - pairs)[:4]}', job); bad = True
    if kind != 'Constant':
        ts = {(a, b, s if s == s else 'nan') for a, b, s in trip}          # an undefined score is still a row (NaN compares unequal to itself)
        for a, b, s in ts:
            if (b, a, s) not in ts:
                V.violation('orientation:' + key, f'({a!r},{b!r},{s}) has no mirrored row with the same score', job); bad = True
                break
    else:
        if any(s != 0 for _, _, s in trip):
            V.violation('constant:' + key, 'Constant heuristic produced a non-zero score', job); bad = True
    if any(a not in names_all or b not in names_all for a, b, _ in trip):
        V.violation('foreign-column:' + key, 'a row mentions a column that is not in the batch', job); bad = True
    return not bad


def main():
    tier, seed, replay = E.tier_seed()
    V = E.Verdict(PID, tier, seed)
    rng = random.Random(seed * 86028121 + 6)
    V.coverage['rule'] = ('TLC: RankGraph.tla over every ordered selection of 1..4 columns out of 5 names (two relation names, one name containing the label name), '
                          'label first/middle/last in sort order, target/pairwise, scoring/3MR/Constant, caps {1,3,50}, two batches with the persistent counter; invariants '
                          'EnumerationIsSpec, PairsExact, BothOrientations, ConstantOnce, NoForeignColumn, RelOnlyWithLabel.  Each configuration is replayed through the real '
                          'get_combinations_from_columns + mixed_rank_graph; seeded configurations with up to 40 (thorough: 150, 3MR clamp) columns are recorded and validated by '
                          'TraceRankGraph.tla.  non-trivial = distinct configurations with >= 2 columns')
    V.assumptions += ['multiplicity of a pair inside one batch is not constrained (the statement speaks of which pairs)']

    # model-only: the 3MR clamp and the pre-repair deviation
    Vt = E.Verdict(PID, tier, seed)
    r, _ = run_spec(Vt, 'deviation', consts(2, RelDiagonal='TRUE', MaxCols=3), emit=None)
    if r.violated not in ('EnumerationIsSpec', 'PairsExact', 'RelOnlyWithLabel'):
        raise E.MachineryError('deviation control RelDiagonal did not violate the enumeration invariants')
    run_spec(V, 'RankGraph/clamp', consts(2, Max3mr=2, MaxCols=3, Caps='{1,50}'), emit=None)
    V.notes['deviation_control'] = 'RelDiagonal=TRUE (relation features paired with themselves) violates ' + r.violated

    labels = [2] if tier == 'quick' else [1, 2, 3]
    for lab in labels:
        res, cases = run_spec(V, f'RankGraph/label{lab}', consts(lab, MaxCols=4 if tier != 'quick' else 3), coverage=(lab == 2))
        if not cases:
            raise E.MachineryError('no cases emitted')
        if res.coverage:
            for a in ('Enumerate', 'Sample', 'ConstantStep', 'Gather'):
                if res.coverage.get(a, (0, 0))[0] == 0:
                    raise E.MachineryError(f'action {a} never taken')
        nm = NAMEMAPS[lab]
        jobs = []
        for cs in cases:
            names = [nm[c] for c in cs['cols']]
            heur = rng.choice(HEUR[cs['heur']])
            jobs.append({'op': 'rank_graph', 'columns': names, 'frame': mkframe(rng, names), 'batches': len(cs['sels']), 'nodes': rng.choice([1, 2, 3]),
                         'args': {'heuristic': heur, 'label_column': nm[lab], 'combination_number_upper_bound': cs['cap'],
                                  'target_ranking_only': 'True' if cs['mode'] == 'target' else 'False'}})
        got = PC.pipe_eval(jobs, modules=['pipe_ops'])
        nontriv = 0
        drift = 0
        for cs, job, r in zip(cases, jobs, got):
            key = f'cols={job["columns"]} label={nm[lab]!r} mode={cs["mode"]} heuristic={job["args"]["heuristic"]} cap={cs["cap"]}'
            if r is None or 'ok' not in r:
                V.violation('raises:' + key, f'mixed_rank_graph failed: {PC.failure_text(r)}', job)
                continue
            if len(cs['cols']) >= 2:
                nontriv += 1
            spec_pairs = [[nm[c] for c in p] for p in cs['spec_pairs']]
            for b, (ob, sel) in enumerate(zip(r['ok'], cs['sels']), start=1):
                real_pairs = {frozenset(c) for c in ob['combos']}
                if real_pairs != {frozenset(p) for p in spec_pairs}:
                    extra = sorted(sorted(p) for p in real_pairs - {frozenset(p) for p in spec_pairs})
                    missing = sorted(sorted(p) for p in {frozenset(p) for p in spec_pairs} - real_pairs)
                    V.violation('enumeration:' + key, f'candidate pairs differ from the requested ones: extra {extra[:4]} missing {missing[:4]}', job)
                    break
                trip = [[a, c, s] for a, c, s in ob['trip']]
                ndup = len(ob['combos']) - len({frozenset(c) for c in ob['combos']})
                if not check_batch(V, f'{key} batch={b}', job, cs['heur'], cs['cap'], len(ob['combos']), set(job['columns']), spec_pairs, nm[lab], trip, ndup):
                    break
                exp = sorted(sorted(nm[c] for c in p) for p in sel)
                gotp = sorted(sorted(p) for p in {frozenset((a, c)) for a, c, _ in trip})
                if sorted(map(list, {tuple(e) for e in exp})) != gotp:
                    drift += 1
        V.count(evaluations=len(cases), nontrivial=nontriv, traces=len(cases))
        V.notes[f'label{lab}_selection_drift'] = drift
        V.add_sample({'config': jobs[len(jobs) // 2]['args'], 'columns': jobs[len(jobs) // 2]['columns'], 'real_triplets': (got[len(jobs) // 2].get('ok') or [{}])[0].get('trip')})

    # ---- binding B: seeded larger configurations, validated by TraceRankGraph
    jobs, meta = [], []
    pool = ['f', 'feat', 'label', 'Label', 'x y', 'ü', '1', '01', 'a,b', 'q-(3; 100)', 'AND', 'f AND g', "it's", 'tab\tname']
    nconf = 14 if tier == 'quick' else 60
    for k in range(nconf):
        ncols = rng.choice([1, 2, 3, 5, 8, 13, 21, 40])
        names = []
        while len(names) < ncols:
            n = rng.choice(pool) + (str(rng.randrange(50)) if rng.random() < 0.8 else '')
            if n not in names:
                names.append(n)
        label = rng.choice(names)
        kind = rng.choice(['scoring', 'scoring', 'scoring3mr', 'Constant'])
        if kind == 'scoring3mr' and ncols >= 3:
            nonl = [n for n in names if n != label]
            for _ in range(rng.randrange(1, 4)):
                a, b = rng.sample(nonl, 2) if len(nonl) >= 2 else (nonl[0], nonl[0])
                rn = f'{a} AND_REL {b}'
                if rn not in names:
                    names.insert(rng.randrange(len(names) + 1), rn)
        mode = rng.choice(['target', 'pairwise'])
        ncand_guess = len(names) * (len(names) + 1) // 2
        cap = rng.choice([1, 2, max(1, ncand_guess // 3), ncand_guess, ncand_guess + 5, 2 ** 15])
        heur = rng.choice(HEUR[kind])
        if heur in ('MI',) and len(names) > 13:
            heur = 'MI-numba-randomized'
        jobs.append({'op': 'rank_graph', 'columns': names, 'frame': mkframe(rng, names, 10), 'batches': 1, 'nodes': rng.choice([1, 2, 3, 4]),
                     'args': {'heuristic': heur, 'label_column': label, 'combination_number_upper_bound': cap,
                              'target_ranking_only': 'True' if mode == 'target' else 'False'}})
        meta.append((kind, mode, label, cap))
        if kind == 'scoring' and not any(' AND_REL ' in n for n in names) and len(names) >= 3 and rng.random() < 0.5:
            other = rng.choice([n for n in names if n != label])
            jobs[-1] = dict(jobs[-1], batches=2, label_seq=[label, other])
    for names_x, seq_x in ((['a', 'b', 'clicked', 'converted', 'c'], ['clicked', 'converted']), (['x', 'label', 'y'], ['label', 'y', 'label'])):
        jobs.append({'op': 'rank_graph', 'columns': names_x, 'frame': mkframe(rng, names_x, 10), 'batches': len(seq_x), 'label_seq': seq_x, 'nodes': 1,
                     'args': {'heuristic': 'MI-numba-randomized', 'label_column': seq_x[0], 'combination_number_upper_bound': 2 ** 15, 'target_ranking_only': 'True'}})
        meta.append(('scoring', 'target', seq_x[0], 2 ** 15))
    if tier != 'quick':
        names = [f'c{i:03d}' for i in range(150)] + ['label']
        jobs.append({'op': 'rank_graph', 'columns': names, 'frame': mkframe(rng, names, 6), 'batches': 1,
                     'args': {'heuristic': 'MI-numba-3mr', 'label_column': 'label', 'combination_number_upper_bound': 20000, 'target_ranking_only': 'True'}})
        meta.append(('scoring3mr', 'target', 'label', 20000))
    got = PC.pipe_eval(jobs, modules=['pipe_ops'])
    wd = E.workdir('c06t')
    try:
        recs = []
        for (kind, mode, label, cap), job, r in zip(meta, jobs, got):
            key = f'seeded:cols={len(job["columns"])} label={label!r} mode={mode} heuristic={job["args"]["heuristic"]} cap={cap}'
            if r is None or 'ok' not in r:
                V.violation('raises:' + key, f'mixed_rank_graph failed: {PC.failure_text(r)}', job)
                continue
            for b_i, ob in enumerate(r['ok'][1:], start=1):
                # a later ranking of the same frame against another target, in the same process
                lab_b = job['label_seq'][b_i]
                recs.append({'cols': job['columns'], 'rel': [n for n in job['columns'] if ' AND_REL ' in n], 'label': lab_b, 'mode': mode, 'kind': kind,
                             'cap': cap, 'ncand': len(ob['combos']), 'ndup': len(ob['combos']) - len({frozenset(c) for c in ob['combos']}),
                             'trip': [[a, b, int(round(s * 2 ** 20)) if s == s else 0] for a, b, s in ob['trip']], 'key': key + f' then label={lab_b!r}'})
            ob = r['ok'][0]
            recs.append({'cols': job['columns'], 'rel': [n for n in job['columns'] if ' AND_REL ' in n], 'label': label, 'mode': mode, 'kind': kind,
                         'cap': cap, 'ncand': len(ob['combos']), 'ndup': len(ob['combos']) - len({frozenset(c) for c in ob['combos']}), 'trip': [[a, b, int(round(s * 2 ** 20)) if s == s else 0] for a, b, s in ob['trip']], 'key': key})
        tf = os.path.join(wd, 'rg.ndjson')
        cfg = E.write_cfg(os.path.join(wd, 't.cfg'), spec='Spec', postcondition='Accepted')

        def validate(rs):
            with open(tf, 'w') as f:
                for rr in rs:
                    f.write(json.dumps(rr) + '\n')
            res = E.run_tlc('TraceRankGraph', cfg, workers=1, env={'TRACE_FILE': tf}, timeout=900)
            E.require_ok(res, 'TraceRankGraph')
            return res
        # ---- what the user reads: pairwise_ranks.tsv of one-batch CLI runs (the names pass through the cardinality / coverage
        # annotation and the writer on their way out); the rows of the file are validated like a recorded batch
        import re as _re
        cli_confs = [('Constant', 'target', ['f1', 'label', 'f2', 'f3'], 'label'), ('Constant', 'pairwise', ['label', 'f1', 'f2'], 'label'),
                     ('scoring', 'target', ['label', 'f1', 'f2', 'f3'], 'label'), ('scoring', 'pairwise', ['f1', 'y', 'f2'], 'y')]
        for ci, (kind_c, mode_c, cols_c, lab_c) in enumerate(cli_confs if tier == 'quick' else cli_confs + [('Constant', 'target', ['f1', 'f2', 'label'], 'label'), ('scoring', 'target', ['f1', 'label', 'f2'], 'label')]):
            sub = os.path.join(wd, f'cli{ci}')
            os.makedirs(os.path.join(sub, 'ds'))
            with open(os.path.join(sub, 'ds', 'data.csv'), 'w') as f_:
                f_.write(','.join(cols_c) + '\n')
                for i_ in range(1300):
                    f_.write(','.join(str(rng.randrange(2 + k_)) for k_ in range(len(cols_c))) + '\n')
            heur_c = 'Constant' if kind_c == 'Constant' else 'MI-numba-randomized'
            a_c = dict(task='ranking', data_path='ds', data_source='csv-raw', minibatch_size=1300, subsampling=1, heuristic=heur_c, label_column=lab_c,
                       target_ranking_only='True' if mode_c == 'target' else 'False', include_cardinality_in_feature_names='True', output_folder='out', num_threads=1)
            rc_c, err_c = PC.run_cli(a_c, sub)
            key_c = f'cli:cols={cols_c} label={lab_c!r} mode={mode_c} heuristic={heur_c}'
            # (a Constant run without a trailing batch ends with exit 1 AFTER writing its results - the clean-up removes a checkpoint
            # nothing wrote; Pipeline.tla models that as `crashed`, and it is not this property's business: the file is judged)
            if not os.path.exists(os.path.join(sub, 'out', 'pairwise_ranks.tsv')):
                V.violation('raises:' + key_c, f'ranking task exited {rc_c}: {str(err_c)[-300:]}', a_c)
                continue
            rows_c = PC.read_ranks(os.path.join(sub, 'out'))[1]
            strip = lambda n_: _re.sub(r'-\(\d+; \d+\)$', '', n_)
            try:
                trip_c = [[strip(a_), strip(b_), int(round(float(s_) * 2 ** 20)) if float(s_) == float(s_) else 0] for a_, b_, s_ in rows_c]
            except ValueError:
                V.violation('cli-rows:' + key_c, f'pairwise_ranks.tsv has a row that is not (FeatureA, FeatureB, score): {rows_c[:4]}', a_c)
                continue
            ncand_c = len(cols_c) if mode_c == 'target' else len(cols_c) * (len(cols_c) + 1) // 2
            recs.append({'cols': cols_c, 'rel': [], 'label': lab_c, 'mode': mode_c, 'kind': kind_c, 'cap': 2 ** 15, 'ncand': ncand_c, 'ndup': 0, 'trip': trip_c, 'key': key_c})
            jobs.append({'columns': cols_c, 'args': dict(a_c, label_column=lab_c), 'cli': True})
        res = validate(recs)
        V.add_tlc(res, 'TraceRankGraph')
        rest = recs
        guard = 0
        while not res.ok and guard < 10:
            guard += 1
            badrec = rest[res.depth - 1] if 0 < res.depth <= len(rest) else rest[0]
            job = next(j for j in jobs if j['columns'] == badrec['cols'] and (j['args']['label_column'] == badrec['label'] or badrec['label'] in (j.get('label_seq') or [])))
            spec_pairs = None
            # name the failing clause with the harness-side mirror
            C = set(badrec['cols']); R = set(badrec['rel']); NRc = C - R
            if badrec['kind'] == 'scoring3mr':
                sp = [[a, b] for a in NRc for b in NRc] + [[x, badrec['label']] for x in R]
            elif badrec['mode'] == 'target':
                sp = [[f, badrec['label']] for f in C]
            else:
                sp = [[a, b] for a in C for b in C]
            capeff = min(badrec['cap'], 10000) if badrec['kind'] == 'scoring3mr' else badrec['cap']
            if check_batch(V, badrec['key'], job, badrec['kind'], capeff, badrec['ncand'], C, sp, badrec['label'], badrec['trip'], badrec['ndup']):
                V.violation('trace-rejected:' + badrec['key'], 'TraceRankGraph rejects the recorded batch', job)
            rest = rest[res.depth:] if 0 < res.depth <= len(rest) else rest[1:]
            if not rest:
                break
            res = validate(rest)
        V.count(evaluations=len(recs), nontrivial=sum(1 for r in recs if len(r['cols']) >= 2), traces=len(recs))
        V.add_sample({'seeded_record': {k: recs[0][k] for k in ('cols', 'label', 'mode', 'kind', 'cap', 'ncand')}, 'triplets': recs[0]['trip'][:6]})
        # negative control: drop one mirrored row
        ctl = next(r for r in recs if r['kind'] != 'Constant' and len(r['trip']) >= 2 and r['trip'][0][0] != r['trip'][0][1])
        bad = dict(ctl, trip=ctl['trip'][1:])
        if validate([bad]).ok:
            raise E.MachineryError('negative control: trace without a mirrored row accepted')
        V.notes['negative_control'] = 'TraceRankGraph rejects a batch with one orientation removed'
    finally:
        E.cleanup(wd)
    V.coverage['exhaustive'] = True
    return V.finish()


if __name__ == '__main__':
    try:
        sys.exit(main())
    except E.MachineryError as e:
        print(f'MACHINERY-FAILURE {PID}: {e}', file=sys.stderr)
        sys.exit(2)
    except Exception as e:  # unexpected harness error: machinery failure, never a verdict
        import traceback
        traceback.print_exc()
        print(f'MACHINERY-FAILURE {PID}: unexpected {type(e).__name__}: {e}', file=sys.stderr)
        sys.exit(2)
