"""Harness side of pipe_child: deal jobs to child processes, collect results."""
from __future__ import annotations

import concurrent.futures as cf
import os

from harness import engine as E


def pipe_eval(jobs, *, procs=14, modules=(), env=None, timeout=1800, script='pipe_child.py'):
    """Returns a list aligned with jobs: {'ok': ...} | {'error': ..., 'type': ...} |
    {'crash': rc, 'stderr': ...} (process died; bisected to the single job)."""
    results = [None] * len(jobs)
    if not jobs:
        return results
    E.log(f'pipe_eval {len(jobs)} jobs')

    def work(idxs):
        req = {'jobs': [jobs[i] for i in idxs], 'modules': list(modules)}
        rc, out, err = E.run_child(script, [], stdin_obj=req, env=env, timeout=timeout)
        if rc == 0 and out and 'results' in out and len(out['results']) == len(idxs):
            return [(i, r) for i, r in zip(idxs, out['results'])]
        if len(idxs) == 1:
            return [(idxs[0], {'crash': rc, 'stderr': err[-1500:]})]
        mid = len(idxs) // 2
        return work(idxs[:mid]) + work(idxs[mid:])

    procs = max(1, min(procs, len(jobs)))
    spans = [list(range(k, len(jobs), procs)) for k in range(procs)]
    with cf.ThreadPoolExecutor(max_workers=procs) as ex:
        for part in ex.map(work, spans):
            for i, r in part:
                results[i] = r
    for r in results:
        # the harness binds to named entry points of the code; if one of them is gone (refactoring), that is a machinery
        # failure (exit 2: the binding must be updated), never a verdict about the property
        if r and 'error' in r and (r.get('type') in ('ImportError', 'ModuleNotFoundError') or
                                   (r.get('type') == 'AttributeError' and "module 'outrank" in r['error'])):
            raise E.MachineryError('the code no longer exposes an entry point the harness binds to: ' + r['error'])
    return results


def failure_text(r):
    if r is None:
        return 'no result'
    if 'crash' in r:
        return f'process died ({E.signal_name(r["crash"])}): {r.get("stderr", "")[-300:]}'
    if 'error' in r:
        return f'{r["type"]}: {r["error"]}'
    return ''


def run_cli(cli_args: dict, cwd: str, *, hashseed='0', events=None, rec_opts=None, timeout=900):
    """Run the real CLI (python -m outrank equivalent) in a fresh interpreter in `cwd`.
    Returns (returncode, stderr_tail)."""
    import json
    import subprocess
    from harness.pipe_lib import cli_argv
    argv = cli_argv(**cli_args)
    env = E.child_env({'PYTHONHASHSEED': hashseed})
    if rec_opts is not None:
        env['VERIF_REC_OPTS'] = json.dumps(rec_opts)
    cmd = [E.PY, os.path.join(E.VERIF, 'harness', 'cli_boot.py'), events or '-', '--'] + argv
    try:
        p = subprocess.run(cmd, cwd=cwd, env=env, stdout=subprocess.PIPE, stderr=subprocess.PIPE, timeout=timeout)
    except subprocess.TimeoutExpired:
        return 'timeout', ''
    return p.returncode, (p.stdout.decode('utf-8', 'replace')[-1500:] + p.stderr.decode('utf-8', 'replace')[-2500:])


def read_ranks(folder):
    """pairwise_ranks.tsv as a list of (FeatureA, FeatureB, score-text) in file order."""
    import csv
    path = os.path.join(folder, 'pairwise_ranks.tsv')
    with open(path, newline='', encoding='utf-8') as f:
        rows = list(csv.reader(f, delimiter='\t'))
    return rows[0], [tuple(r) for r in rows[1:]]
