"""C11 - feature construction is additive, row-aligned and follows its stated rule."""
from __future__ import annotations

import os
import random
import sys

sys.path.insert(0, os.path.dirname(os.path.dirname(os.path.abspath(__file__))))
from harness import engine as E
from harness import pipe_common as PC

PID = 'C11'
INVS = ['Additive', 'OneValuePerRow', 'DistinctNames', 'MultiValueRule', 'OneSidedRule', 'TwoSidedRule', 'TargetControlIsLabel']
CONTROLS = ['CONTROL-constant0', 'CONTROL-gaussian', 'CONTROL-uniform', 'CONTROL-random-binary', 'CONTROL-random-card100', 'CONTROL-random-card2k',
            'CONTROL-random-card10k', 'CONTROL-random-card50k', 'CONTROL-int-sequence']
BASE = {'lab': 'label', 'M': 'm', 'A': 'fa', 'B': 'fb', 'C': 'fc'}


def rname(t, BASE=BASE):
    if len(t) == 1:
        return BASE[t[0]]
    if t[0] == 'MULTIEX':
        return f'MULTIEX-{BASE[t[1]]}-{t[2]}'
    if t[0] == 'SUB1':
        return f'SUBFEATURE-{BASE[t[1]]}&{t[2]}'
    if t[0] == 'SUB2':
        return f'SUBFEATURE|{BASE[t[1]]}|{BASE[t[2]]}-{t[3]}&{t[4]}'
    if t[0] == 'AND':
        return rname(t[1], BASE) + ' AND ' + rname(t[2], BASE)
    if t[0] == 'TR':
        return BASE[t[1]] + t[2]
    if t[0] == 'CONTROL':
        return CONTROLS[int(t[1]) - 1] if t[1].isdigit() else 'CONTROL-' + t[1]
    raise ValueError(t)


def rval(v):
    if isinstance(v, str):
        return v
    if v == ():
        return ''
    return ''.join(rval(x) for x in v)


def canon(p):
    seen = {}
    return [seen.setdefault(repr(v), len(seen)) for v in p]


TRNAMES = ['_tr_sqrt', '_tr_log(x+1)', '_tr_sqrt(abs(x))', '_tr_log(abs(x)+1)']       # the 'minimal' preset
CELL = {'q3': '"3"', 'q2.5': '"2.5"'}                                                    # quoted numeric cells (kept abstract in the spec)


def has_tr(t):
    return isinstance(t, tuple) and len(t) > 0 and (t[0] == 'TR' or any(has_tr(x) for x in t[1:]))


FOCUS = '{{"M", "A"}, {"A", "B", "C"}, {"B"}, {"M", "A", "B", "C"}}'


def run_config(V, rng, tier, run_label, MV, AV, BV, CV, MAPS, flagsets):
    q = tier == 'quick'
    wd = E.workdir('c11')
    try:
        mc = E.write_mc(wd, 'FeatureConstruction', {'MC_Flags': '{' + ', '.join(flagsets) + '}', 'MC_SubMaps': MAPS,
                                                     'MC_Focus': FOCUS if run_label == 'focus' else ('{{"M", "A", "B", "C"}, {"A", "B"}}' if run_label == 'transform' else '{{"M", "A", "B", "C"}}'),
                                                     'MC_Tr': '<<' + ', '.join(f'"{x}"' for x in TRNAMES) + '>>'})
        C = {'NRows': 3, 'MVals': MV, 'AVals': AV, 'BVals': BV, 'CVals': CV, 'SubMaps': '<- MC_SubMaps', 'FocusSets': '<- MC_Focus',
             'FlagSets': '<- MC_Flags', 'MissingTokens': '{""}', 'NControls': 9, 'TrNames': '<- MC_Tr'}
        cfg = E.write_cfg(os.path.join(wd, 'mc.cfg'), constants=C, invariants=INVS + ['FocusKeepsOrder', 'Emit'])
        res = E.run_tlc(mc, cfg, timeout=2400, coverage=(q and run_label == 'plain'))
        E.require_ok(res, 'FeatureConstruction/' + run_label)
        V.add_tlc(res, 'FeatureConstruction/' + run_label)
        V.tlc_violation(res, 'FeatureConstruction/' + run_label)
        if res.coverage:
            for a in ('Transform', 'Expand', 'Sub', 'Interact', 'Noise'):
                if res.coverage.get(a, (0, 0))[0] == 0:
                    raise E.MachineryError(f'action {a} never taken')
        cases = [(set(t[1]), t[3], t[4], [tuple(e) for e in t[2]], set(t[5]), t[6]) for t in E.extract_tuples(res.stdout, 'CASE')]
    finally:
        E.cleanup(wd)
    if not cases:
        raise E.MachineryError('no cases emitted')
    items = []
    for flags, f0, f, submap, focus, raw in cases:
        # the label column is whatever --label_column names (with noise controls the target control must follow it)
        labname = rng.choice(['label', 'label', 'target', 'clicked']) if 'noise' in flags else 'label'
        B = dict(BASE, lab=labname)
        cols0 = [rname(c[0], B) for c in raw]
        # label position varies; the spec's frame lists it first
        order = cols0[1:]
        order.insert(rng.randrange(len(order) + 1), labname)
        data = {rname(c[0], B): [CELL.get(v, v) for v in c[1]] for c in raw}
        nrows = len(raw[0][1])
        rows = [[data[c][r] for c in order] for r in range(nrows)]
        mapping = ';'.join(BASE[a] + ('->' if op == 'one' else '<->') + BASE[b] for op, a, b in submap)
        items.append({'columns': order, 'rows': rows,
                      'kept': [rname(c[0], B) for c in f0], '_base': B,
                      'numeric': ['fc'] if 'transform' in flags and 'C' in focus else [],
                      'args': {'heuristic': 'MI-numba-randomized', 'label_column': labname,
                               'feature_set_focus': (None if focus == {'M', 'A', 'B', 'C'} else ','.join(sorted(BASE[x] for x in focus))),
                               'transformers': 'minimal' if 'transform' in flags and 'C' in focus else 'none',
                               'explode_multivalue_features': 'm' if 'multi' in flags else 'False',
                               'subfeature_mapping': mapping or 'False', 'interaction_order': 2 if 'interact' in flags else 1,
                               'include_noise_baseline_features': 'True' if 'noise' in flags else 'False', 'combination_number_upper_bound': 10 ** 6,
                               # an option of the SCORING stage: it must not change what is constructed
                               'mi_stratified_sampling_ratio': rng.choice([1.0, 1.0, 0.5, 0.1])}})
    chunk = 400
    jobs = [{'op': 'batch_features', 'items': items[i:i + chunk]} for i in range(0, len(items), chunk)]
    got = PC.pipe_eval(jobs, modules=['pipe_ops'])
    nontriv = drift = notr = 0
    for ji, (job, r) in enumerate(zip(jobs, got)):
        if r is None or 'ok' not in r:
            V.violation(f'raises:chunk{ji}', f'compute_batch_ranking failed: {PC.failure_text(r)}', job['items'][0])
            continue
        for (flags, f0, f, submap, focus, raw), item, ob in zip(cases[ji * chunk:(ji + 1) * chunk], job['items'], r['ok']):
            key = f'rows={item["rows"]} columns={item["columns"]} flags={sorted(flags)} mapping={item["args"]["subfeature_mapping"]}'
            if flags:
                nontriv += 1
            if 'error' in ob:
                V.violation('raises:' + key, f'compute_batch_ranking raised {ob["error"]}', item)
                continue
            kept = [c_ for c_ in item['columns'] if c_ in item['kept']]          # focus keeps the label and the focused columns, in the data's order
            n0 = len(kept)
            if ob['columns'][:n0] != kept or any(ob['values'][c] != [row[item['columns'].index(c)] for row in item['rows']] for c in kept) or not ob['input_untouched']:
                V.violation('additive:' + key, f'original columns/values/row order changed: columns {ob["columns"][:n0]}', item)
                continue
            if ob['nrows'] != len(item['rows']) or any(v == 'DUPLICATE-COLUMN' or len(v) != len(item['rows']) for v in ob['values'].values()) or len(set(ob['columns'])) != len(ob['columns']):
                V.violation('one-value-per-row:' + key, f'a constructed column does not have exactly one value per row (columns {ob["columns"]})', item)
                continue
            expected = {}
            tr_names = set()
            for name_t, vals in f[len(f0):]:
                if has_tr(name_t):
                    tr_names.add(rname(name_t, item['_base']))       # transformer columns (and interactions over them): any subset may be kept, values are Transformers.tla's business
                    continue
                expected[rname(name_t, item['_base'])] = (name_t[0], vals)
            newcols = {c_: ob['values'][c_] for c_ in ob['columns'][n0:]}

            def satisfies(kind, vals, real):
                """the stated rule for a constructed column, independent of its name and of the filler used on the other rows"""
                if kind == 'MULTIEX':
                    return all((rv == '1') == (rval(v) == '1') for rv, v in zip(real, vals))
                if kind == 'SUB1':
                    exp = [rval(v) for v in vals]
                    on = [i_ for i_, e_ in enumerate(exp) if e_ != '']
                    off = [i_ for i_, e_ in enumerate(exp) if e_ == '']
                    return all(real[i_] == exp[i_] for i_ in on) and len({real[i_] for i_ in off}) <= 1 and all(real[i_] not in {exp[j_] for j_ in on} for i_ in off)
                if kind == 'SUB2':
                    exp = [rval(v) for v in vals]
                    off = {real[i_] for i_, e_ in enumerate(exp) if e_ != '1'}
                    return all(real[i_] == '1' for i_, e_ in enumerate(exp) if e_ == '1') and len(off) <= 1 and '1' not in off
                if kind == 'AND':
                    return canon(real) == canon(vals)
                return True
            for nm, (kind, vals) in expected.items():
                if kind == 'CONTROL':
                    if nm == 'CONTROL-target':
                        want = [rval(v) for v in vals]
                        if not any(rv == want for rv in newcols.values()):
                            V.violation(f'rule:CONTROL-target:{key}', f'no constructed column replicates the label {want} (constructed: {list(newcols)})', item)
                            break
                    continue
                if nm in newcols and satisfies(kind, vals, newcols[nm]):
                    continue
                if any(satisfies(kind, vals, rv) for rv in newcols.values()) and kind != 'AND':
                    drift += 1                      # the rule is satisfied by a column under another name
                    continue
                shown = newcols.get(nm)
                V.violation(f'rule:{kind}:{key}', f'column {nm!r} = {shown}; the stated rule gives {[rval(v) for v in vals] if kind != "AND" else canon(vals)} (no constructed column satisfies it)', item)
                break
            extra = [c_ for c_ in ob['columns'][n0:] if c_ not in expected and c_ not in tr_names]
            if 'transform' in flags and 'C' in focus and not any(c_ in tr_names for c_ in ob['columns'][n0:]):
                notr += 1
            if extra:
                drift += 1
    V.count(evaluations=len(cases), nontrivial=nontriv, traces=len(cases))
    V.notes['drift_extra_columns_' + run_label] = drift
    if run_label == 'transform':
        V.notes['transform_cases_without_kept_transformer_column'] = notr
        if notr == len(cases):
            raise E.MachineryError('the transformer step never appended a column')
    mid = len(items) // 2
    V.add_sample({'item': items[mid], 'constructed_columns': (got[mid // chunk].get('ok') or [{}])[mid % chunk].get('columns')})


def main():
    tier, seed, replay = E.tier_seed()
    V = E.Verdict(PID, tier, seed)
    rng = random.Random(seed * 256203221 + 11)
    V.coverage['rule'] = ('TLC: FeatureConstruction.tla - every frame (label + a numeric column with blank and quoted cells for the transformer step + multi-value column over {"", a, b, "a,b", "b-a"} and punctuated tokens + three categorical columns, 3 rows) x flag subsets x sub-feature mapping lists (several pairs sharing a seed column with different selectors), '
                          'one action per constructor in pipeline order; Additive, OneValuePerRow, MultiValueRule, OneSidedRule, TwoSidedRule, TargetControlIsLabel.  Every state is '
                          'replayed through the real compute_batch_ranking (scoring stage replaced by a capture of the constructed frame) and the constructed frame compared: '
                          'originals unchanged as prefix, every specified column present with the specified values, interaction columns by partition, control columns by name/shape. '
                          'non-trivial = distinct (frame, flags) with at least one constructor enabled')
    V.assumptions += ['the order of the appended columns is not constrained; unexpected additional columns are reported as drift only']
    q = tier == 'quick'
    AB = '{<<"one","A","B">>, <<"two","A","B">>}'
    MAPS_OLD = '{<<<<"one","A","B">>, <<"two","A","B">>>>}'
    MAPS_MULTI = ('{<<<<"one","A","B">>, <<"one","A","C">>>>, <<<<"two","A","B">>, <<"two","A","C">>>>, <<<<"one","B","A">>, <<"two","A","C">>, <<"one","A","B">>>>, '
                  '<<<<"one","A","C">>>>, <<<<"two","C","B">>, <<"one","C","A">>>>}')
    full = ['{}', '{"multi"}', '{"sub"}', '{"interact"}', '{"noise"}', '{"multi","sub","interact","noise"}', '{"multi","interact"}', '{"sub","noise"}', '{"sub","interact"}']
    if q:
        runs = [('plain', '{"", "a", "a,b", "b-a"}', '{"a","b"}', '{"a","b"}', '{"x"}', MAPS_OLD, ['{"multi","sub","interact","noise"}', '{"multi"}']),
                ('punctuated-tokens', '{"a.b", "axb", "c+", "c", "c+,c", "a|b", "a*"}', '{"a"}', '{"a","b"}', '{"x"}', MAPS_OLD, ['{"multi"}']),
                ('mappings', '{"a"}', '{"a","b"}', '{"a","b"}', '{"x","y"}', MAPS_MULTI, ['{"sub"}']),
                ('focus', '{"a", "a,b"}', '{"a","b"}', '{"a","b"}', '{"x"}', MAPS_OLD, ['{"interact"}', '{}']),
                ('transform', '{"a"}', '{"a","b"}', '{"a"}', '{"1", "", "q3", "4"}', MAPS_OLD, ['{"transform"}', '{"transform","interact"}']),
                ('whitespace-selectors', '{"a"}', '{"a","b"}', '{"a", "a ", "b"}', '{"x"}', MAPS_OLD, ['{"sub"}'])]
    else:
        runs = [('plain', '{"", "a", "b", "a,b", "b-a", "c-"}', '{"a","b"}', '{"a","b"}', '{"x"}', MAPS_OLD, full),
                ('punctuated-tokens', '{"a.b", "axb", "c+", "c", "c+,c", "a|b", "a*", "(a", "aa", "a.b-axb", "a"}', '{"a"}', '{"a","b"}', '{"x"}', MAPS_OLD, ['{"multi"}', '{"multi","interact"}']),
                ('mappings', '{"a", "a,b"}', '{"a","b"}', '{"a","b"}', '{"x","y"}', MAPS_MULTI, ['{"sub"}', '{"sub","multi","interact"}']),
                ('focus', '{"a", "a,b", "b"}', '{"a","b"}', '{"a","b"}', '{"x","y"}', MAPS_OLD, ['{"interact"}', '{}', '{"noise"}']),
                ('transform', '{"a", "a,b"}', '{"a","b"}', '{"a"}', '{"1", "", "q3", "4", "q2.5", "-2"}', MAPS_OLD, ['{"transform"}', '{"transform","interact"}', '{"transform","sub","noise"}']),
                ('whitespace-selectors', '{"a"}', '{"a","b", " a"}', '{"a", "a ", "b", "b "}', '{"x"}', MAPS_OLD, ['{"sub"}', '{"sub","interact"}'])]
    for run_label, MV, AV, BV, CV, MAPS, flagsets in runs:
        run_config(V, rng, tier, run_label, MV, AV, BV, CV, MAPS, flagsets)
    # ---- larger value alphabets than the model's (12 x 12 and 20 x 9 values: more value pairs than an 8-bit code holds):
    # the sub-feature rules on every value and value pair of a frame that contains each pair
    big_items = []
    for na, nb_ in ((12, 12), (20, 9)) if tier == 'quick' else ((12, 12), (20, 9), (3, 50), (16, 16)):
        va = [f'u{i}' for i in range(na)]
        vb = [f'v{i}é' for i in range(nb_)]
        rows = [[a_, b_, str((i_ + j_) % 2)] for i_, a_ in enumerate(va) for j_, b_ in enumerate(vb)]
        rows += [rng.choice(rows) for _ in range(17)]
        rng.shuffle(rows)
        big_items.append({'columns': ['fa', 'fb', 'label'], 'rows': rows, 'args': {'heuristic': 'MI-numba-randomized', 'label_column': 'label', 'subfeature_mapping': 'fa<->fb;fa->fb',
                                   'mi_stratified_sampling_ratio': 0.5 if len(big_items) % 2 else 1.0}})       # a scoring-stage option: no effect on construction
    bg = PC.pipe_eval([{'op': 'batch_features', 'items': [it_]} for it_ in big_items], modules=['pipe_ops'])
    for it_, r_ in zip(big_items, bg):
        key = f'large-alphabet: {len(set(r[0] for r in it_["rows"]))} x {len(set(r[1] for r in it_["rows"]))} values, {len(it_["rows"])} rows, mapping fa<->fb;fa->fb'
        if r_ is None or 'ok' not in r_ or 'error' in r_['ok'][0]:
            V.violation('raises:' + key, f'compute_batch_ranking failed: {PC.failure_text(r_) or r_["ok"][0].get("error")}', {'key': key})
            continue
        ob = r_['ok'][0]
        fa = [r[0] for r in it_['rows']]
        fb = [r[1] for r in it_['rows']]
        if ob['columns'][:3] != ['fa', 'fb', 'label'] or ob['values']['fa'] != fa or ob['values']['fb'] != fb:
            V.violation('additive:' + key, 'original columns changed', {'key': key})
            continue
        new_ = [ob['values'][c_] for c_ in ob['columns'][3:]]
        ones = {}
        for col in new_:
            idx = frozenset(i_ for i_, v_ in enumerate(col) if v_ == '1')
            if idx and len(set(col)) <= 2:
                ones[idx] = True
        missing_pairs = [(u_, v_) for u_, v_ in sorted(set(zip(fa, fb))) if frozenset(i_ for i_ in range(len(fa)) if fa[i_] == u_ and fb[i_] == v_) not in ones]
        if missing_pairs:
            V.violation('rule:SUB2:' + key, f'no constructed column is the indicator of the value pair for {len(missing_pairs)} pairs, e.g. {missing_pairs[:3]}', {'key': key})
        joined = {}
        for col in new_:
            on = frozenset(i_ for i_, v_ in enumerate(col) if 'AND' in v_)
            if on and all(col[i_] == fa[i_] + 'AND' + fb[i_] for i_ in on) and len({col[i_] for i_ in range(len(col)) if i_ not in on}) <= 1:
                joined[on] = True
        missing_vals = [v_ for v_ in sorted(set(fb)) if frozenset(i_ for i_ in range(len(fb)) if fb[i_] == v_) not in joined]
        if missing_vals:
            V.violation('rule:SUB1:' + key, f'no constructed column carries the joined value exactly on the rows of selector value(s) {missing_vals[:3]}', {'key': key})
    V.count(evaluations=len(big_items), nontrivial=len(big_items), traces=len(big_items))

    # ---- several multi-value features in one run (--explode_multivalue_features "m1;m2") that share tokens
    import re as _re
    mv_items = []
    for k_ in range(3 if tier == 'quick' else 12):
        vals_ = ['a', 'b', 'a,b', 'c-a', '', 'b,c', 'c']
        rows = [[rng.choice(vals_), rng.choice(vals_), str(i_ % 2)] for i_ in range(14)]
        order_ = rng.choice(['m1;m2', 'm2;m1'])
        mv_items.append({'columns': ['m1', 'm2', 'label'], 'rows': rows, 'args': {'heuristic': 'MI-numba-randomized', 'label_column': 'label', 'explode_multivalue_features': order_,
                                   'mi_stratified_sampling_ratio': [1.0, 0.5, 0.25][k_ % 3]}})
    mg = PC.pipe_eval([{'op': 'batch_features', 'items': mv_items}], modules=['pipe_ops'])[0]
    if mg is None or 'ok' not in mg:
        V.violation('raises:two-multivalue', f'compute_batch_ranking failed: {PC.failure_text(mg)}', {'items': mv_items[:1]})
    else:
        for it_, ob in zip(mv_items, mg['ok']):
            key = f'two multi-value features {it_["args"]["explode_multivalue_features"]} rows={it_["rows"]}'
            if 'error' in ob:
                V.violation('raises:' + key, ob['error'], it_)
                continue
            if ob['columns'][:3] != ['m1', 'm2', 'label'] or any(ob['values'][c_] != [r_[ci_] for r_ in it_['rows']] for ci_, c_ in enumerate(('m1', 'm2', 'label'))):
                V.violation('additive:' + key, f'original columns/values/row order changed (sampling ratio {it_["args"]["mi_stratified_sampling_ratio"]})', it_)
                continue
            newcols = {c_: ob['values'][c_] for c_ in ob['columns'][3:]}
            for fi, fn in enumerate(('m1', 'm2')):
                col = [r_[fi] for r_ in it_['rows']]
                toks = {t_ for v_ in col for t_ in _re.split('[,-]', v_)} - {''}
                for t_ in sorted(toks):
                    want = [t_ in _re.split('[,-]', v_) for v_ in col]
                    named = newcols.get(f'MULTIEX-{fn}-{t_}')
                    ok_named = named is not None and [x_ == '1' for x_ in named] == want
                    if not ok_named and not (named is None and any([x_ == '1' for x_ in cv_] == want for cv_ in newcols.values())):
                        V.violation(f'rule:MULTIEX:{key} feature={fn} token={t_}', f'indicator of token {t_!r} in {fn}: {named}; the token is contained exactly on rows {[i_ for i_, w_ in enumerate(want) if w_]}', it_)
                        break
        V.count(evaluations=len(mv_items), nontrivial=len(mv_items), traces=len(mv_items))
    V.coverage['exhaustive'] = True
    return V.finish()


if __name__ == '__main__':
    try:
        sys.exit(main())
    except E.MachineryError as e:
        print(f'MACHINERY-FAILURE {PID}: {e}', file=sys.stderr)
        sys.exit(2)
    except Exception as e:  # unexpected harness error: machinery failure, never a verdict
        import traceback
        traceback.print_exc()
        print(f'MACHINERY-FAILURE {PID}: unexpected {type(e).__name__}: {e}', file=sys.stderr)
        sys.exit(2)
