"""C14 - cardinality sketch: exact while warm, within 2% beyond, duplicate-blind."""
from __future__ import annotations

import json
import math
import os
import random
import sys

sys.path.insert(0, os.path.dirname(os.path.dirname(os.path.abspath(__file__))))
from harness import engine as E
from harness import pipe_common as PC

PID = 'C14'
INVS = ['ExactWhileWarm', 'ConversionLosesNothing', 'OrderIndependentWhileExact']


def est_table(m, p):
    out = {}
    for z in range(0, m + 1):
        out[z] = (1 << p) if z == 0 else int(math.ceil(m * math.log(m / z))) - 1
    return out


def run_spec(V, label, vals, cap, p, bucket, maxlen, dev=None, emit=True, coverage=False):
    m = 1 << p
    wd = E.workdir('c14')
    try:
        names = {v: i + 1 for i, v in enumerate(vals)}
        mc = E.write_mc(wd, 'HLL', {'MC_Bucket': '(' + ' @@ '.join(f'{names[v]} :> {bucket[v]}' for v in vals) + ')',
                                    'MC_Est': '(' + ' @@ '.join(f'{z} :> {e}' for z, e in est_table(m, p).items()) + ')'})
        c = {'Vals': '{' + ', '.join(str(i) for i in names.values()) + '}', 'Cap': cap, 'M': m, 'Bucket': '<- MC_Bucket', 'Est': '<- MC_Est', 'MaxLen': maxlen,
             'ConvertOnDuplicate': 'TRUE' if dev == 'dup' else 'FALSE', 'DropTrigger': 'TRUE' if dev == 'drop' else 'FALSE'}
        cfg = E.write_cfg(os.path.join(wd, 'mc.cfg'), constants=c, invariants=INVS + (['Emit'] if emit else []), properties=['DuplicateBlind'])
        res = E.run_tlc(mc, cfg, coverage=coverage, timeout=900)
        E.require_ok(res, label)
        V.add_tlc(res, label)
        V.tlc_violation(res, label)
        cases = []
        inv = {i: v for v, i in names.items()}
        if emit:
            for t in E.extract_tuples(res.stdout, 'CASE'):
                _, hist, phase, warm, nz, size = t
                cases.append({'hist': [inv[i] for i in hist], 'phase': phase, 'warm': sorted(inv[i] for i in warm), 'nz': sorted(nz), 'size': size})
        return res, cases
    finally:
        E.cleanup(wd)


def main():
    tier, seed, replay = E.tier_seed()
    V = E.Verdict(PID, tier, seed)
    rng = random.Random(seed * 198491317 + 14)
    V.coverage['rule'] = ('TLC: HLL.tla with the real class scaled down through its instance attributes (p=3: 8 registers, warm-up capacity 3; bucket map measured from the real '
                          'hash): every insertion sequence of length <= 7 (thorough 8) over 5 values with duplicates; ExactWhileWarm, ConversionLosesNothing, DuplicateBlind (action '
                          'property).  Every sequence is replayed on the real class comparing len(), phase, warm-up set and non-empty registers.  Full-scale runs of the unmodified '
                          'class (warm-up 2^18) crossing the boundary in increasing / shuffled / duplicate-heavy orders and up to 2^20 (thorough 2^21) distinct values are recorded '
                          '(every add near the boundary) and validated by TraceHLL.tla.  non-trivial = distinct sequences that reach the conversion or re-add a seen value')
    V.assumptions += ['the linear-counting estimate ceil(m ln(m/zeros))-1 is computed by the harness for the model (transcendental leaf)',
                      'values are strings / hex digests as the pipeline feeds them']

    p, cap = 3, 3
    vals = ['a', 'b', 'c', 'd', 'é', 'f']
    r = PC.pipe_eval([{'op': 'hll_buckets', 'values': vals, 'p': p}], modules=['sketch_ops'])[0]
    if not r or 'ok' not in r:
        raise E.MachineryError('cannot measure bucket map: ' + PC.failure_text(r))
    bucket = r['ok']
    if any(b is None for b in bucket.values()):
        # the registers of a fresh sketch are not observable one value at a time (e.g. shared between instances): the model then
        # runs with an arbitrary bucket map - its register states are drift only, the clauses of the property do not depend on it
        V.notes['bucket_map_p3'] = f'not measurable ({bucket}); arbitrary map used for the model'
        bucket = {v: i % (1 << p) for i, v in enumerate(vals)}
    else:
        V.notes['bucket_map_p3'] = bucket
    # deviation controls
    for dev, inv in (('dup', 'ExactWhileWarm'), ('drop', 'ConversionLosesNothing')):
        Vt = E.Verdict(PID, tier, seed)
        rr, _ = run_spec(Vt, dev, vals[:4], cap, p, bucket, 5, dev=dev, emit=False)
        if rr.violated not in (inv, 'DuplicateBlind'):
            raise E.MachineryError(f'deviation control {dev} did not violate {inv}: {rr.violated}')
    V.notes['deviation_controls'] = 'ConvertOnDuplicate violates ExactWhileWarm/DuplicateBlind, DropTrigger violates ConversionLosesNothing'

    use = vals[:5]
    res, cases = run_spec(V, 'HLL/p3-cap3', use, cap, p, bucket, 7 if tier == 'quick' else 8, coverage=True)
    if not cases:
        raise E.MachineryError('no cases emitted')
    chunk = 4000
    jobs = [{'op': 'hll_replay', 'p': p, 'cap': cap, 'histories': [c['hist'] for c in cases[i:i + chunk]]} for i in range(0, len(cases), chunk)]
    got = PC.pipe_eval(jobs, modules=['sketch_ops'])
    nontriv = 0
    drift = 0
    scaled_errors = []
    for ji, (job, r) in enumerate(zip(jobs, got)):
        if r is None or 'ok' not in r:
            # the replay drives the class scaled down through its instance attributes (p, m, width, warm-up size): an exception
            # here may only mean that this scaling no longer applies - judged at the end against the full-scale runs
            scaled_errors.append(f'chunk{ji}: {PC.failure_text(r)[:200]}')
            continue
        for cs, ob in zip(cases[ji * chunk:(ji + 1) * chunk], r['ok']):
            distinct = len(set(cs['hist']))
            if distinct > cap or len(cs['hist']) > distinct:
                nontriv += 1
            key = f'adds={cs["hist"]} (p=3, warm-up capacity 3)'
            last = cs['hist'][-1]
            if distinct <= cap and ob['size'] != distinct:
                V.violation('exact:' + key, f'len()={ob["size"]} with {distinct} distinct values (<= capacity {cap})', cs)
            elif len(cs['hist']) > 1 and last in cs['hist'][:-1] and ob['sizes'][-1] != ob['sizes'][-2]:
                V.violation('duplicate:' + key, f're-adding the already seen value {last!r} changed len() from {ob["sizes"][-2]} to {ob["sizes"][-1]}', cs)
            elif ob['size'] != cs['size'] or ob['hll'] != (cs['phase'] == 'hll') or ob['nz'] != cs['nz'] or (not ob['hll'] and ob['warm'] != cs['warm']):
                drift += 1          # internal state differs from the bounded model beyond what the property fixes
    V.count(evaluations=len(cases), nontrivial=nontriv, traces=len(cases))
    V.add_sample({'history': cases[len(cases) // 2]})
    V.notes['spec_drift_states'] = drift

    # ---- full scale
    lim = (1 << 18) + 3000
    plans = [('increasing', lim, 'hex'), ('dup-at-boundary', lim, 'str'), ('dup-heavy', lim, 'hex'), ('shuffled', lim, 'str'), ('exactly-cap-then-dups', 1 << 18, 'hex'), ('readd-trigger', (1 << 18) + 60, 'str'),
             ('increasing', 1 << 20, 'hex'), ('shuffled', lim + 40000, 'mixed'), ('increasing', lim, 'str+companion')]
    if tier != 'quick':
        plans += [('increasing', 1 << 21, 'hex'), ('increasing', 1 << 21, 'str'), ('dup-heavy', 1 << 20, 'str'), ('shuffled', (1 << 18) + 2000, 'hex')]
    jobs = [{'op': 'hll_fullscale', 'pattern': pt, 'limit': lm, 'values': vk.split('+')[0], 'companion': vk.endswith('+companion'), 'seed': seed * 100 + i} for i, (pt, lm, vk) in enumerate(plans)]
    got = PC.pipe_eval(jobs, modules=['sketch_ops'], procs=len(jobs))
    wd = E.workdir('c14t')
    try:
        cfg = E.write_cfg(os.path.join(wd, 't.cfg'), spec='Spec', postcondition='Accepted', constants={'Cap': 1 << 18, 'Limit': 1 << 21})
        for (pt, lm, vk), job, r in zip(plans, jobs, got):
            key = f'fullscale:{pt}:limit={lm}:values={vk}:seed={job["seed"]}'
            if r is None or 'ok' not in r:
                V.violation('raises:' + key, f'run failed: {PC.failure_text(r)}', job)
                continue
            evs = r['ok']['events']
            tf = os.path.join(wd, 't.ndjson')
            with open(tf, 'w') as f:
                f.write(json.dumps({'e': 'begin'}) + '\n')
                for ev in evs:
                    f.write(json.dumps(ev) + '\n')
            res = E.run_tlc('TraceHLL', cfg, workers=1, env={'TRACE_FILE': tf}, timeout=900)
            E.require_ok(res, 'TraceHLL')
            V.add_tlc(res, f'TraceHLL/{pt}-{lm}')
            if not res.ok:
                k = res.depth - 2
                n = sum(e['new'] for e in evs[:k])
                V.violation(key, f'TraceHLL rejects add event #{k} ({evs[k] if 0 <= k < len(evs) else None}) with {n} distinct values seen before it: size not exact (<= 2^18) / not within 2% / changed by a re-added value',
                            dict(job, event_index=k))
            V.count(evaluations=len(evs), nontrivial=sum(1 for e in evs if e['new'] == 0 or e['size'] != 0), traces=1)
        V.add_sample({'fullscale_plan': plans[1], 'events_near_boundary': [e for e in (got[1].get('ok') or {'events': []})['events']][1:8]})
        # negative control
        evs = [{'e': 'begin'}, {'e': 'add', 'new': 10, 'dup': 0, 'size': 10}, {'e': 'add', 'new': 0, 'dup': 1, 'size': 9}]
        with open(tf, 'w') as f:
            for ev in evs:
                f.write(json.dumps(ev) + '\n')
        if E.run_tlc('TraceHLL', cfg, workers=1, env={'TRACE_FILE': tf}, timeout=300).ok:
            raise E.MachineryError('negative control: size change on a duplicate accepted')
    finally:
        E.cleanup(wd)
    if scaled_errors:
        V.notes['scaled_replay_errors'] = scaled_errors[:5]
        if not V.violations:
            raise E.MachineryError('the scaled-down instance of the sketch raises although the full-scale runs are fine - the binding of HLL.tla (instance attributes p, m, width, warmup_size) must be updated: ' + scaled_errors[0])
    V.coverage['exhaustive'] = True
    return V.finish()


if __name__ == '__main__':
    try:
        sys.exit(main())
    except E.MachineryError as e:
        print(f'MACHINERY-FAILURE {PID}: {e}', file=sys.stderr)
        sys.exit(2)
    except Exception as e:  # unexpected harness error: machinery failure, never a verdict
        import traceback
        traceback.print_exc()
        print(f'MACHINERY-FAILURE {PID}: unexpected {type(e).__name__}: {e}', file=sys.stderr)
        sys.exit(2)
