"""C15 - frequency sketches err on one side only."""
from __future__ import annotations

import json
import os
import random
import sys

sys.path.insert(0, os.path.dirname(os.path.dirname(os.path.abspath(__file__))))
from harness import engine as E
from harness import pipe_common as PC

PID = 'C15'


def run_spec(V, label, c, next_, invs, emit=None, coverage=False):
    wd = E.workdir('c15')
    try:
        cfg = E.write_cfg(os.path.join(wd, 'mc.cfg'), next_=next_, constants=c, invariants=invs + ([emit] if emit else []))
        res = E.run_tlc('CMS', cfg, coverage=coverage, timeout=900)
        E.require_ok(res, label)
        V.add_tlc(res, label)
        V.tlc_violation(res, label)
        cases = []
        if emit:
            for t in E.extract_tuples(res.stdout, 'CASE'):
                cnt = t[2]
                cnt = {i + 1: v for i, v in enumerate(cnt)} if isinstance(cnt, tuple) else dict(cnt)
                cases.append({'hist': list(t[1]), 'cnt': cnt})
        return res, cases
    finally:
        E.cleanup(wd)


def consts(D, W, items, weights, maxlen, bound=2, dev=False, cellonce=False, lookup_inserts=False):
    return {'D': D, 'W': W, 'Items': '{' + ','.join(map(str, range(1, items + 1))) + '}', 'Weights': weights, 'MaxLen': maxlen, 'Bound': bound,
            'QueryOtherHash': 'TRUE' if dev else 'FALSE', 'BatchCellOnce': 'TRUE' if cellonce else 'FALSE',
            'LookupInserts': 'TRUE' if lookup_inserts else 'FALSE'}


def main():
    tier, seed, replay = E.tier_seed()
    V = E.Verdict(PID, tier, seed)
    rng = random.Random(seed * 217645177 + 15)
    V.coverage['rule'] = ('TLC: CMS.tla - every hash function [Items -> [rows -> locations]] (chosen at Init), every update stream of bounded length with weights 0..2 (single updates and BatchUpdate of lists up to length 3): NeverUnder, '
                          'NeverOverTotal, RowSumsAreTotal; the bounded counter for bounds 1..3 and every item stream of length <= 6 (ExactBelowBound, NeverOverCounts, AtMostBoundKeys), '
                          'each stream replayed on the real PrimitiveConstrainedCounter.  Real CountMinSketch objects (depth 1..8, width 1..2^15, numpy seeds, int and string items, '
                          'add(x, w), batch_add([x], w) and batch_add of whole lists with repeated and colliding items) are driven by seeded streams; every update is recorded with the real '
                          'query() of every seen item and of an unseen one and the row sums, and validated by TraceCMS.tla against the ghosts truth/total.  non-trivial = distinct streams in which two items '
                          'collide in some row or a weight 0 occurs')
    V.assumptions += ['accumulated weights stay below the int32 range of the sketch matrix (heavy-hitter streams reach 2^25, the rest stay small)', 'the inductive (unbounded-stream) argument is for the model CMS.tla / CMSInductive.tla; the real class is bound to it by the replayed and validated streams']
    CINV = ['NeverUnder', 'NeverOverTotal', 'RowSumsAreTotal']
    Vt = E.Verdict(PID, tier, seed)
    r, _ = run_spec(Vt, 'deviation', consts(2, 2, 2, '{1}', 3, dev=True), 'NextCMS', CINV)
    if r.violated != 'NeverUnder':
        raise E.MachineryError('deviation control QueryOtherHash did not violate NeverUnder')
    V.notes['deviation_control'] = 'QueryOtherHash=TRUE (query location differs from update location in row 1) violates NeverUnder'
    r, _ = run_spec(Vt, 'deviation-batch', consts(2, 2, 2, '{1}', 2, cellonce=True), 'NextCMSBatch', CINV)
    if r.violated not in ('NeverUnder', 'RowSumsAreTotal'):
        raise E.MachineryError('deviation control BatchCellOnce did not violate NeverUnder / RowSumsAreTotal')
    V.notes['deviation_control_batch'] = 'BatchCellOnce=TRUE (one increment per touched cell and call) violates ' + r.violated
    for D, W, items, ml in ([(2, 2, 2, 2)] if tier == 'quick' else [(2, 2, 2, 3), (1, 3, 3, 2), (2, 3, 2, 2)]):
        run_spec(V, f'CMS-batch/D{D}-W{W}-{items}items', consts(D, W, items, '{0,1,2}', ml), 'NextCMSBatch', CINV)
    grid = [(2, 2, 3, 4), (1, 3, 3, 4), (2, 3, 2, 4)] if tier == 'quick' else [(2, 2, 3, 5), (1, 3, 3, 5), (2, 3, 2, 5), (3, 2, 2, 4), (2, 3, 3, 3)]
    for D, W, items, ml in grid:
        res, _ = run_spec(V, f'CMS/D{D}-W{W}-{items}items', consts(D, W, items, '{0,1,2}', ml), 'NextCMS', CINV, coverage=(D, W) == (2, 2))
        if res.coverage and res.coverage.get('Update', (0, 0))[0] == 0:
            raise E.MachineryError('Update never taken')

    # unbounded streams: the three clauses follow from an inductive invariant (Apalache, spec/apalache/CMSInductive.tla)
    apa = os.path.join(E.SPEC, 'apalache', 'CMSInductive.tla')
    steps = [('base', ['--init=Init', '--inv=IndInv', '--length=0'], 'ok'),
             ('step', ['--init=IndInit', '--inv=IndInv', '--length=1'], 'ok'),
             ('consequences', ['--init=IndInit', '--inv=Consequences', '--length=0'], 'ok'),
             ('non-vacuity', ['--init=IndInit', '--inv=NonVacuous', '--length=0'], 'violation'),
             ('deviation-step', ['--init=IndInit', '--next=NextDev', '--inv=IndInv', '--length=1'], 'violation')]
    if tier == 'quick':
        steps = [s_ for s_ in steps if s_[0] in ('step', 'consequences', 'deviation-step')]
    import concurrent.futures as cf
    with cf.ThreadPoolExecutor(max_workers=len(steps)) as ex:
        outcomes = list(ex.map(lambda s_: E.run_apalache(apa, s_[1]), steps))
    for (nm, args, want), got_ in zip(steps, outcomes):
        if nm in ('non-vacuity', 'deviation-step'):
            if got_ != want:
                raise E.MachineryError(f'apalache control {nm}: expected a counterexample, got {got_}')
        elif got_ != want:
            V.violation(f'inductive:{nm}', f'Apalache found a counterexample to the inductive argument ({nm}) for the count-min machine', {'args': args})
    V.notes['inductive_invariant'] = ('Apalache: IndInv (every cell = sum of the true weights of the items hashed to it; total = sum of weights) holds initially, is preserved by Update and '
                                      'Batch2 for arbitrary integer cell values and every hash function (D=2, W=3, 3 items), and implies NeverUnder, NeverOverTotal, RowSumsAreTotal; '
                                      'controls: the hypothesis is satisfiable with non-trivial values, and the BatchCellOnce deviation breaks the inductive step.  steps run: ' + ', '.join(s_[0] for s_ in steps))

    # bounded counter: model + replay
    # deviation control: look-ups that create entries must break the counter's exactness (the Lookup step is not vacuous)
    r_l, _ = run_spec(E.Verdict(PID, tier, seed), 'Counter/deviation-lookup', consts(1, 1, 3, '{1}', 4, bound=2, lookup_inserts=True), 'NextCounter',
                      ['NeverOverCounts', 'ExactBelowBound', 'AtMostBoundKeys'], emit=None)
    if r_l.violated != 'ExactBelowBound':
        raise E.MachineryError(f'deviation control LookupInserts did not violate ExactBelowBound ({r_l.violated})')
    V.notes['deviation_control_lookup'] = 'LookupInserts=TRUE (a look-up creates a zero entry) violates ExactBelowBound'
    for bound in (0, 1, 2, 3):          # bound 0: a counter that tracks nothing
        res, cases = run_spec(V, f'Counter/bound{bound}', consts(1, 1, 4, '{1}', 5 if tier == 'quick' else 6, bound=bound), 'NextCounter',
                              ['NeverOverCounts', 'ExactBelowBound', 'AtMostBoundKeys'], emit='EmitCounter')
        if not cases:
            raise E.MachineryError('no counter cases')
        names = {1: 'a', 2: '', 3: 'é', 4: '7'}
        jobs = [{'op': 'counter_replay', 'bound': bound, 'histories': [[names[i] for i in c['hist']] for c in cases]},
                {'op': 'counter_replay', 'bound': bound, 'probe': True, 'histories': [[names[i] for i in c['hist']] for c in cases]}]
        got, got_p = PC.pipe_eval(jobs, modules=['sketch_ops'])
        if got is None or 'ok' not in got or got_p is None or 'ok' not in got_p:
            V.violation(f'raises:counter-bound{bound}', f'PrimitiveConstrainedCounter failed: {PC.failure_text(got if got is None or "ok" not in got else got_p)}', jobs[0]['histories'][:3])
            continue
        nontriv = 0
        drift = 0
        # second pass: the same streams with look-ups of running counts between the adds (Counter.tla Lookup: a stuttering step);
        # entries with a positive count are judged
        for c, ob in list(zip(cases, got['ok'])) + list(zip(cases, got_p['ok'])):
            hist = [names[i] for i in c['hist']]
            true = {}
            for v in hist:
                true[v] = true.get(v, 0) + 1
            key = f'counter bound={bound} stream={hist}'
            if len(true) >= bound:
                nontriv += 1
            if len(ob) > bound:
                V.violation('counter-keys:' + key, f'tracks {len(ob)} values', {'stream': hist, 'bound': bound})
            elif any(n > true.get(v, 0) for v, n in ob.items()):
                V.violation('counter-over:' + key, f'counter {ob} over-counts (true {true})', {'stream': hist, 'bound': bound})
            elif len(true) < bound and ob != true:
                V.violation('counter-exact:' + key, f'counter {ob} != exact counts {true} although only {len(true)} < {bound} distinct values were seen', {'stream': hist, 'bound': bound})
            elif ob != {names[i]: n for i, n in c['cnt'].items()}:
                drift += 1
        V.count(evaluations=len(cases), nontrivial=nontriv, traces=len(cases))
        V.notes[f'counter_bound{bound}_drift'] = drift
    V.add_sample({'counter_stream': cases[len(cases) // 2]})

    # ---- real CountMinSketch streams -> TraceCMS
    jobs = []
    nstreams = 40 if tier == 'quick' else 400
    pool_items = [0, 1, 2, 7, 10 ** 6, 2 ** 31 - 1, -5, 'a', 'b', '', 'é', 'feature-x', '12', 'a' * 40, 3.5]
    for k in range(nstreams):
        depth = rng.choice([1, 2, 3, 6, 8])
        width = rng.choice([1, 2, 3, 7, 64, 1000, 2 ** 15])
        kind = rng.choice(['int', 'str', 'mixed'])
        items = [x for x in pool_items if (kind == 'mixed' and not isinstance(x, float)) or (kind == 'int' and isinstance(x, int)) or (kind == 'str' and isinstance(x, str))]
        items = rng.sample(items, min(len(items), rng.randrange(2, 7)))
        unseen = 424242 if kind != 'str' else 'never-added'
        via = rng.choice(['add', 'batch1', 'batch', 'batch'])
        if via == 'batch':      # whole lists per call: repeated items and (at small widths) distinct items sharing a cell
            stream = [[[rng.choice(items) for _ in range(rng.choice([0, 1, 2, 3, 4, 8]))], rng.choice([0, 1, 1, 2, 3, 100])] for _ in range(rng.randrange(3, 20))]
        else:
            stream = [[rng.choice(items), rng.choice([0, 1, 1, 1, 2, 5, 100])] for _ in range(rng.randrange(5, 40))]
        if k % 8 == 7:
            # a heavy hitter: one bulk update of 2^24 or more (well inside the 32-bit cell range), then unit updates
            hv = rng.choice([2 ** 24, 20_000_000, 2 ** 25 + 1])
            if via == 'batch':
                stream = [[[items[0]], hv]] + [[[rng.choice(items[:2])], 1] for _ in range(12)]
            else:
                stream = [[items[0], hv]] + [[rng.choice(items[:2]), 1] for _ in range(12)]
        jobs.append({'op': 'cms_stream', 'depth': depth, 'width': width, 'npseed': rng.randrange(2 ** 31), 'stream': stream, 'unseen': unseen,
                     'via': via})
    got = PC.pipe_eval(jobs, modules=['sketch_ops'])
    wd = E.workdir('c15t')
    try:
        tf = os.path.join(wd, 'cms.ndjson')
        cfg = E.write_cfg(os.path.join(wd, 't.cfg'), spec='Spec', postcondition='Accepted')
        good = []
        for k, (job, r) in enumerate(zip(jobs, got)):
            if r is None or 'ok' not in r:
                V.violation(f'raises:stream depth={job["depth"]} width={job["width"]}', f'CountMinSketch failed: {PC.failure_text(r)}', job)
                continue
            good.append((k, job, r['ok']))

        def validate(group):
            with open(tf, 'w') as f:
                for k, job, evs in group:
                    f.write(json.dumps({'e': 'begin', 'depth': job['depth']}) + '\n')
                    for ev in evs:
                        f.write(json.dumps(ev) + '\n')
            res = E.run_tlc('TraceCMS', cfg, workers=1, env={'TRACE_FILE': tf}, timeout=900)
            E.require_ok(res, 'TraceCMS')
            return res
        res = validate(good)
        V.add_tlc(res, 'TraceCMS(batch of streams)')
        todo = good
        guard = 0
        while not res.ok and guard < 8:
            guard += 1
            # locate the stream containing the rejected line
            line = res.depth - 1
            acc = 0
            hit = None
            for idx, (k, job, evs) in enumerate(todo):
                if line < acc + 1 + len(evs):
                    hit = idx
                    break
                acc += 1 + len(evs)
            if hit is None:
                break
            k, job, evs = todo[hit]
            ev = evs[line - acc - 1] if 0 <= line - acc - 1 < len(evs) else None
            V.violation(f'stream:depth={job["depth"]} width={job["width"]} npseed={job["npseed"]} via={job["via"]}',
                        f'TraceCMS rejects update #{line - acc - 1} of the stream: {json.dumps(ev)[:300]} (query below the true accumulated weight / above the total weight added / a row sum != total)', job)
            todo = todo[hit + 1:]
            if not todo:
                break
            res = validate(todo)
        V.count(evaluations=sum(len(e) for _, _, e in good), nontrivial=sum(1 for _, j, _ in good if j['width'] <= 7 or any(w == 0 for _, w in j['stream'])), traces=len(good))
        V.add_sample({'stream': {k_: good[0][1][k_] for k_ in ('depth', 'width', 'npseed', 'via')}, 'first_event': good[0][2][0]})
        # negative controls
        k, job, evs = good[0]
        bad = [dict(e) for e in evs]
        q = [list(x) for x in bad[-1]['queries']]
        q[0][1] = -1
        bad[-1] = dict(bad[-1], queries=q)
        if validate([(k, job, bad)]).ok:
            raise E.MachineryError('negative control: under-estimating query accepted')
        bad = [dict(e) for e in evs]
        bad[0] = dict(bad[0], rowsums=[x + 1 for x in bad[0]['rowsums']])
        if validate([(k, job, bad)]).ok:
            raise E.MachineryError('negative control: wrong row sum accepted')
        V.notes['negative_controls'] = 'a query result lowered by 1 and a row sum raised by 1 are rejected'
    finally:
        E.cleanup(wd)
    V.coverage['exhaustive'] = True
    return V.finish()


if __name__ == '__main__':
    try:
        sys.exit(main())
    except E.MachineryError as e:
        print(f'MACHINERY-FAILURE {PID}: {e}', file=sys.stderr)
        sys.exit(2)
    except Exception as e:  # unexpected harness error: machinery failure, never a verdict
        import traceback
        traceback.print_exc()
        print(f'MACHINERY-FAILURE {PID}: unexpected {type(e).__name__}: {e}', file=sys.stderr)
        sys.exit(2)
