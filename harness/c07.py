"""C07 - capped combination sampling is fair over any sequence of batches."""
from __future__ import annotations

import json
import os
import random
import sys

sys.path.insert(0, os.path.dirname(os.path.dirname(os.path.abspath(__file__))))
from harness import engine as E
from harness import pipe_common as PC

PID = 'C07'


def seqs(ls):
    return '{' + ', '.join('<<' + ', '.join(map(str, l)) + '>>' for l in ls) + '}'


def run_sampler(V, label, keys, lists, maxcap, histlen=0, view=True, constraint=None, emit=False, coverage=False):
    wd = E.workdir('c07')
    try:
        mc = E.write_mc(wd, 'Sampler', {'MC_Keys': f'1..{keys}', 'MC_Lists': seqs(lists)})
        invs = ['Fair', 'SelectedAreCandidates', 'CountsArePicks'] + (['Emit'] if emit else [])
        cfg = E.write_cfg(os.path.join(wd, 's.cfg'), constants={'Keys': '<- MC_Keys', 'Lists': '<- MC_Lists', 'MaxCap': maxcap, 'HistLen': histlen},
                          invariants=invs, properties=['ExactlyCap', 'LeastFirst'], view=('View' if view else None), constraint=constraint)
        res = E.run_tlc(mc, cfg, timeout=600, coverage=coverage)
        E.require_ok(res, label)
        V.add_tlc(res, label)
        V.tlc_violation(res, label)
        cases = []
        if emit:
            for t in E.extract_tuples(res.stdout, 'CASE'):
                cases.append([(list(c[0]), c[1], list(c[2])) for c in t[1]])
        return res, cases
    finally:
        E.cleanup(wd)


def keyname(k):
    return [f'f{k}', 'label'] if k % 2 else [f'a{k}', f'b{k}']


def make_csv(rng, nfeat, nrows, card=3):
    cols = [f'f{i}' for i in range(nfeat)] + ['label']
    lines = [','.join(cols) + '\n']
    for r in range(nrows):
        lines.append(','.join(str(rng.randrange(card + i % 2)) for i in range(nfeat)) + ',' + str(rng.randrange(2)) + '\n')
    return cols, lines


def main():
    tier, seed, replay = E.tier_seed()
    V = E.Verdict(PID, tier, seed)
    rng = random.Random(seed * 67867967 + 7)
    V.coverage['rule'] = ('TLC: Sampler.tla with a VIEW that subtracts the minimum count, so every history of any length is covered for lists of 1..6(7) candidates and '
                          'caps 1..n+1 changing per call (Fair, ExactlyCap, LeastFirst, CountsArePicks); two-client and duplicate-key lists under a spread constraint; '
                          'behaviours (all call sequences of length 3-4) emitted from a history variable and replayed through the real prior_combinations_sample comparing the '
                          'returned list and the whole counter after every call; recorded sampler calls of multi-batch pipeline runs validated by SamplerTrace.tla. '
                          'non-trivial = distinct behaviours with at least one call whose cap is below the list length')
    V.assumptions += ['Fair is stated for a stable duplicate-free list (precondition of the property)']

    sizes = [1, 3, 6] if tier == 'quick' else [1, 2, 3, 4, 5, 6, 7]
    for n in sizes:
        run_sampler(V, f'Sampler/single-{n}', n, [list(range(1, n + 1))], n + 1, coverage=(n == 3))
    run_sampler(V, 'Sampler/two-clients-disjoint', 5, [[1, 2, 3], [4, 5]], 4, constraint='Spread3')
    run_sampler(V, 'Sampler/two-clients-overlap', 5, [[1, 2, 3], [3, 4, 5, 1]], 4, constraint='Spread3')
    run_sampler(V, 'Sampler/duplicate-keys', 3, [[1, 2, 2, 3]], 4, constraint='Spread3')
    if tier != 'quick':
        run_sampler(V, 'Sampler/reordered-lists', 4, [[1, 2, 3, 4], [4, 3, 2, 1]], 5, constraint='Spread3')

    # ---- binding A: behaviours -> real function
    # lists of one and two candidates are the lower boundary of 'lists of 1..6 candidates' (a one-element list is still
    # registered and counted)
    emits = [('hist-single1', 1, [[1]], 2, 3), ('hist-single2', 2, [[1, 2]], 3, 4), ('hist-single4', 4, [[1, 2, 3, 4]], 5, 4), ('hist-two-clients', 4, [[1, 2, 3], [2, 3, 4]], 3, 4 if tier != 'quick' else 3),
             ('hist-duplicates', 3, [[1, 2, 2, 3]], 4, 3)]
    if tier != 'quick':
        emits.append(('hist-single6', 6, [[1, 2, 3, 4, 5, 6]], 7, 4))
    for label, keys, lists, maxcap, hl in emits:
        res, behs = run_sampler(V, f'Sampler/{label}', keys, lists, maxcap, histlen=hl, view=False, constraint='Bounded', emit=True)
        if not behs:
            raise E.MachineryError('no behaviours emitted')
        jobs = []
        chunk = 200
        for i in range(0, len(behs), chunk):
            jobs.append({'op': 'sampler_replay', 'behaviours': [[[[keyname(k) for k in lst], cap] for lst, cap, _ in b] for b in behs[i:i + chunk]]})
        got = PC.pipe_eval(jobs, modules=['pipe_ops'])
        nontriv = 0
        drift_count = [0]
        for ji, (job, r) in enumerate(zip(jobs, got)):
            if r is None or 'ok' not in r:
                V.violation(f'replay-failed:{label}:{ji}', f'prior_combinations_sample failed: {PC.failure_text(r)}', job)
                continue
            for b, steps in zip(behs[ji * chunk:(ji + 1) * chunk], r['ok']):
                cnt = {}
                spec_drift_here = False
                if any(cap < len(lst) for lst, cap, _ in b):
                    nontriv += 1
                for (lst, cap, sel), st in zip(b, steps):
                    # property-level acceptance of the REAL selection (ties may be broken in any way); the model's own
                    # selection `sel` (stable sort) is compared for drift only
                    keys = [tuple(keyname(k)) for k in lst]
                    for k in keys:
                        cnt.setdefault(k, 0)
                    ret = [tuple(k) for k in st['ret']]
                    hkey = f'{label}:calls={[(l, c) for l, c, _ in b]}'
                    dupfree = len(set(keys)) == len(keys)
                    problem = None
                    if any(k not in keys for k in ret):
                        problem = f'returned {ret} contains a combination that is not a candidate'
                    elif len(ret) != min(cap, len(keys)):
                        problem = f'returned {len(ret)} combinations, exactly min(cap={cap}, candidates={len(keys)}) are required'
                    elif dupfree and len(set(ret)) != len(ret):
                        problem = f'returned combinations are not distinct: {ret}'
                    elif dupfree and ret and any(cnt[a] > cnt[u] for a in ret for u in keys if u not in ret):
                        problem = f'returned {ret} although less-evaluated candidates exist (counts before the call {cnt})'
                    if problem:
                        V.violation('selection:' + hkey, problem, {'behaviour': b})
                        break
                    for k in ret:
                        cnt[k] += 1
                    real_cnt = {tuple(k): v for k, v in st['counts']}
                    if real_cnt != cnt:
                        V.violation('counter:' + hkey, f'reported counts {real_cnt} are not the number of times each combination was returned {cnt}', {'behaviour': b})
                        break
                    if dupfree and len({tuple(x) for x in map(tuple, [keys])}) == 1 and len(b) and all(l == b[0][0] for l, _, _ in b):
                        if max(cnt.values()) - min(cnt.values()) > 1:
                            V.violation('fairness:' + hkey, f'evaluation counts of a stable duplicate-free list differ by more than one: {cnt}', {'behaviour': b})
                            break
                    if st['ret'] != [keyname(k) for k in sel]:
                        spec_drift_here = True
                drift_count[0] += 1 if spec_drift_here else 0
        V.count(evaluations=len(behs), nontrivial=nontriv, traces=len(behs))
        V.notes[f'{label}_tie_breaking_drift'] = drift_count[0]
        V.add_sample({'run': label, 'behaviour': behs[len(behs) // 3]})

    # ---- a cap and a candidate list beyond 10^4 (the value the 3MR branch clamps to): for other heuristics the cap is the user's
    ncol_b = 145
    names_b = [f'c{i:03d}' for i in range(ncol_b)] + ['label']
    frame_b = {n_: [str((i_ + k_) % 3) for k_ in range(4)] for i_, n_ in enumerate(names_b)}
    cap_b = 10150
    bj = [{'op': 'rank_graph', 'columns': names_b, 'frame': frame_b, 'batches': 3,
           'args': {'heuristic': 'Constant', 'label_column': 'label', 'target_ranking_only': 'False', 'combination_number_upper_bound': cap_b}}]
    br = PC.pipe_eval(bj, modules=['pipe_ops'])[0]
    if br is None or 'ok' not in br:
        V.violation('run-failed:large-cap', f'mixed_rank_graph failed: {PC.failure_text(br)}', {'columns': ncol_b + 1, 'cap': cap_b})
    else:
        tally = {}
        for b_, ob_ in enumerate(br['ok'], start=1):
            ncand = len({frozenset(c_) for c_ in ob_['combos']})
            pairs = {frozenset((a_, b2_)) for a_, b2_, _ in ob_['trip']}
            ndup = len(ob_['combos']) - ncand
            if not (min(cap_b, len(ob_['combos'])) - ndup <= len(pairs) <= min(cap_b, len(ob_['combos']))):
                V.violation(f'cap:large-cap batch={b_}', f'{len(pairs)} distinct combinations evaluated; the requested cap is {cap_b} and {ncand} distinct candidates exist', {'columns': ncol_b + 1, 'cap': cap_b})
            for p_ in pairs:
                tally[p_] = tally.get(p_, 0) + 1
        V.count(evaluations=3, nontrivial=3, traces=1)

    # ---- binding B: recorded sampler calls of real multi-batch runs
    jobs, meta = [], []
    confs = [('target-only', dict(target_ranking_only='True', combination_number_upper_bound=3, heuristic='MI-numba-randomized'), 6),
             ('pairwise', dict(target_ranking_only='False', combination_number_upper_bound=5, heuristic='Constant'), 5),
             ('cap-above-list', dict(target_ranking_only='True', combination_number_upper_bound=50, heuristic='Constant'), 4),
             ('interactions-target-only', dict(target_ranking_only='True', combination_number_upper_bound=4, interaction_order=2, heuristic='Constant'), 4),
             # two features: the interaction stage has exactly ONE candidate
             ('interactions-single-candidate', dict(target_ranking_only='True', combination_number_upper_bound=3, interaction_order=2, heuristic='Constant'), 2)]
    if tier != 'quick':
        confs += [('pairwise-mi', dict(target_ranking_only='False', combination_number_upper_bound=7, heuristic='MI-numba-randomized'), 6),
                  ('cap-1', dict(target_ranking_only='True', combination_number_upper_bound=1, heuristic='Constant'), 5)]
    refjson = os.path.join(E.WORK_ROOT, f'c07_reference_{os.getpid()}.json')
    os.makedirs(E.WORK_ROOT, exist_ok=True)
    with open(refjson, 'w') as f_:
        json.dump({'desc': {'features': ['f0', 'f1'], 'fields': []}}, f_)
    confs.append(('prior-heuristic-reference-model', dict(target_ranking_only='True', combination_number_upper_bound=2, heuristic='surrogate-SGD', reference_model_JSON=refjson), 6))
    findings_confs = [('interactions-pairwise', dict(target_ranking_only='False', combination_number_upper_bound=6, interaction_order=2, heuristic='Constant'), 4),
                      ('3mr-order2', dict(target_ranking_only='True', combination_number_upper_bound=6, interaction_order=2, heuristic='MI-numba-3mr'), 3)]
    nb = 6 if tier == 'quick' else 20
    # one run whose last batch is the trailing partial batch (> 1024 rows): its selections count like any other batch's
    confs.append(('target-only-tail-batch', dict(target_ranking_only='True', combination_number_upper_bound=2, heuristic='Constant', minibatch_size=1100, _rows=2 * 1100 + 1030), 5))
    expected_batches = {}
    for name, a, nfeat in confs + findings_confs:
        a = dict(a)
        nrows = a.pop('_rows', nb * 40 + 7)
        cols, lines = make_csv(rng, nfeat, nrows)
        a = dict(dict(minibatch_size=40), **a, subsampling=1)
        expected_batches[name] = nrows // a['minibatch_size'] + (1 if nrows % a['minibatch_size'] > 1024 else 0)
        jobs.append({'op': 'run_stream', 'columns': cols, 'lines': lines, 'args': a, 'opts': {'log_parse': False, 'log_ids': False}})
        meta.append(name)
    got = PC.pipe_eval(jobs, modules=['pipe_ops'])
    wd = E.workdir('c07t')
    try:
        for name, job, r in zip(meta, jobs, got):
            if r is None or 'ok' not in r:
                V.violation(f'run-failed:{name}', f'pipeline run failed: {PC.failure_text(r)}', {'conf': name, 'args': job['args']})
                continue
            calls = []
            for e in r['ok']['events']:
                if e['e'] == 'call':
                    calls.append(e)
                elif e['e'] == 'batch' and e.get('trip') is not None and calls:
                    # the pairs that appear in the batch's rows, named by the candidate key of the last rank-pair call
                    last = next((c for c in reversed(calls) if c['e'] == 'call' and c['client'] == 'mixed_rank_graph'), None)
                    if last is not None:
                        cand = set(last['list'])
                        keys = set()
                        for a_, b_, *_ in e['trip']:
                            k1, k2 = repr((a_, b_)), repr((b_, a_))
                            keys.add(k1 if k1 in cand or k2 not in cand else k2)
                        calls.append({'e': 'evaluated', 'keys': sorted(keys)})
            nbatches = len([e for e in r['ok']['events'] if e['e'] == 'batch'])
            ncalls_only = [e for e in calls if e['e'] == 'call']
            if not ncalls_only and nbatches >= expected_batches[name]:
                # the batches were ranked without the sampler being consulted: judged from the rows each batch produced
                cap_ = job['args'].get('combination_number_upper_bound', 2 ** 15)
                sizes = [len({frozenset((t_[0], t_[1])) for t_ in (e.get('trip') or [])}) for e in r['ok']['events'] if e['e'] == 'batch']
                if any(sz > cap_ for sz in sizes):
                    V.violation(f'cap:{name}', f'batches evaluated {sizes} distinct combinations, the cap is {cap_} (the sampler was not consulted at all)', {'conf': name, 'args': job['args']})
                    continue
                tally_ = {}
                for e in r['ok']['events']:
                    if e['e'] == 'batch':
                        for pr_ in {frozenset((t_[0], t_[1])) for t_ in (e.get('trip') or [])}:
                            tally_[pr_] = tally_.get(pr_, 0) + 1
                rep_ = {}
                for k_, v_ in r['ok']['comb_counts'].items():
                    try:
                        rep_[frozenset(eval(k_))] = v_
                    except Exception:
                        pass
                if any(rep_.get(pr_, 0) != n_ for pr_, n_ in tally_.items()):
                    V.violation(f'reported-counts:{name}', f'the reported evaluation counts {dict(list(r["ok"]["comb_counts"].items())[:4])} are not the number of batches in which each combination was evaluated ({nbatches} batches; the sampler was not consulted)', {'conf': name, 'args': job['args']})
                    continue
                raise E.MachineryError(f'{name}: recorder saw no sampler call in {nbatches} batches')
            if not ncalls_only or nbatches < expected_batches[name]:
                raise E.MachineryError(f'{name}: recorder saw {len(calls)} sampler calls in {nbatches} batches')
            tf = os.path.join(wd, f'{name}.ndjson')
            with open(tf, 'w') as f:
                f.write(json.dumps({'e': 'begin'}) + '\n')
                for e in calls:
                    f.write(json.dumps(e) + '\n')
            cfg = E.write_cfg(os.path.join(wd, 't.cfg'), spec='Spec', invariants=['ReportedIsPerCombination'], postcondition='Accepted')
            res = E.run_tlc('SamplerTrace', cfg, workers=1, env={'TRACE_FILE': tf}, timeout=900)
            E.require_ok(res, f'SamplerTrace/{name}')
            V.add_tlc(res, f'SamplerTrace/{name}')
            # reported counts (what combination_estimation_counts.json is written from) = last logged counter
            if r['ok']['comb_counts'] != ncalls_only[-1]['counts']:
                V.violation(f'reported-counts:{name}', 'returned GLOBAL_PRIOR_COMB_COUNTS differs from the counter after the last sampler call', {'conf': name})
            if res.violated == 'ReportedIsPerCombination':
                V.violation(f'shared-key:{name}', 'a reported evaluation count is not the number of batches in which that combination was selected: '
                            'the interaction-candidate sampler and the rank-pair sampler increment the same counter key', {'conf': name, 'args': job['args'], 'tlc': res.stdout[-1500:]})
            elif not res.ok:
                # rejected trace: locate the first rejected call for the report
                depth = res.depth
                V.violation(f'trace-rejected:{name}', f'SamplerTrace rejects event #{depth - 1} of the recorded run (not a least-evaluated-first selection of exactly cap candidates, counter mismatch, or the pairs scored in the batch are not the returned candidates)',
                            {'conf': name, 'args': job['args'], 'event': calls[max(0, depth - 2)] if depth - 2 < len(calls) else None})
            V.count(evaluations=len(calls), nontrivial=sum(1 for e in ncalls_only if e['cap'] < len(e['list'])), traces=1)
            if name == 'target-only':
                V.add_sample({'recorded_call': {k: ncalls_only[1][k] for k in ('client', 'list', 'cap', 'ret')}})
                # negative control: corrupt one returned list
                bad = [dict(e) for e in ncalls_only]
                bad[1] = dict(bad[1], ret=bad[1]['ret'][:-1])
                with open(tf, 'w') as f:
                    f.write(json.dumps({'e': 'begin'}) + '\n')
                    for e in bad:
                        f.write(json.dumps(e) + '\n')
                res2 = E.run_tlc('SamplerTrace', cfg, workers=1, env={'TRACE_FILE': tf}, timeout=600)
                if res2.ok:
                    raise E.MachineryError('negative control: corrupted sampler trace accepted')
                V.notes['negative_control'] = 'SamplerTrace rejects a trace whose 2nd returned list lost one candidate'
    finally:
        E.cleanup(wd)
        try:
            os.unlink(refjson)
        except OSError:
            pass
    V.coverage['exhaustive'] = True
    return V.finish()


if __name__ == '__main__':
    try:
        sys.exit(main())
    except E.MachineryError as e:
        print(f'MACHINERY-FAILURE {PID}: {e}', file=sys.stderr)
        sys.exit(2)
    except Exception as e:  # unexpected harness error: machinery failure, never a verdict
        import traceback
        traceback.print_exc()
        print(f'MACHINERY-FAILURE {PID}: unexpected {type(e).__name__}: {e}', file=sys.stderr)
        sys.exit(2)
