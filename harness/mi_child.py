"""Child process: evaluates the REAL estimator on cases read from stdin (JSON), prints one JSON
line.  Runs in its own process because the code under test may crash the interpreter."""
from __future__ import annotations

import json
import sys

import numpy as np


def main():
    req = json.load(sys.stdin)
    from numba import njit

    from outrank.algorithms.feature_ranking import ranking_mi_numba as M

    @njit
    def _poison(n, val):
        a = np.empty(n)
        for i in range(n):
            a[i] = val
        return a[0] if n > 0 else 0.0

    mode = req['mode']
    poison = req.get('poison')          # None | list of float values cycled through
    out = []
    est = M.mutual_info_estimator_numba
    if mode == 'score':
        for k, (y, x, r, c) in enumerate(req['cases']):
            Y = np.asarray(y, dtype=np.int32)
            X = np.asarray(x, dtype=np.int32)
            if y == x and k % 2 == 0:
                X = Y          # a vector scored against itself the natural way: est(v, v), one array object for both arguments
            if poison:
                pv = poison[k % len(poison)]
                for sz in {int(float(np.float32(r)) * len(x)), len(x), max(1, len(x) // 2)}:
                    _poison(sz, pv)
            out.append(float(est(Y, X, np.float32(r), bool(c))))
    elif mode == 'score_rep':
        # every case evaluated `reps` times in this process (with different poison before each)
        reps = req.get('reps', 3)
        for k, (y, x, r, c) in enumerate(req['cases']):
            Y = np.asarray(y, dtype=np.int32)
            X = np.asarray(x, dtype=np.int32)
            row = []
            for t in range(reps):
                if poison:
                    pv = poison[(k + t) % len(poison)]
                    for sz in {int(float(np.float32(r)) * len(x)), len(x), max(1, len(x) // 2)}:
                        _poison(sz, pv)
                row.append(float(est(Y, X, np.float32(r), bool(c))))
            out.append(row)
    elif mode == 'sample':
        for k, (y, x, r) in enumerate(req['cases']):
            Y = np.asarray(y, dtype=np.int32)
            X = np.asarray(x, dtype=np.int32)
            fv, _ = M.numba_unique(X)
            if poison:
                pv = poison[k % len(poison)]
                _poison(int(float(np.float32(r)) * len(x)), pv)
            ys, xs = M.stratified_subsampling(Y, X, np.float32(r), fv)
            out.append([ys.tolist(), xs.tolist(), int(float(np.float32(r)) * len(x))])
    elif mode == 'numba_mi':
        from outrank.algorithms import importance_estimator as IE
        import logging
        logging.disable(logging.CRITICAL)
        for y, x, heuristic, ratio, *shape in req['cases']:
            first = np.asarray(y, dtype=np.int64)
            if shape and shape[0] == 'col':
                first = first.reshape(-1, 1)          # the (n, 1) array generate_data_for_ranking hands over with --reference_model_JSON
            out.append(float(IE.numba_mi(first, np.asarray(x, dtype=np.int64), heuristic, ratio)))
    elif mode == 'final':
        # floor(float32(r) * n) exactly as the code computes it (no estimator call)
        for n, r in req['cases']:
            out.append(int(float(np.float32(r)) * n))
    else:
        raise SystemExit(f'unknown mode {mode}')
    sys.stdout.write(json.dumps({'results': out}, allow_nan=True) + '\n')


if __name__ == '__main__':
    main()
