"""C16 - line parsers keep every field in its column and never mis-align."""
from __future__ import annotations

import csv
import io
import os
import random
import sys

sys.path.insert(0, os.path.dirname(os.path.dirname(os.path.abspath(__file__))))
from harness import engine as E
from harness import pipe_common as PC

PID = 'C16'
BASE = {'X': 1, 'Y': 2, 'SP': 3, 'COMMA': 4, 'QT': 5, 'TAB': 6, 'BAR': 7, 'NL': 8, 'DASH': 9, 'ZED': 10, 'Tokens': '<- VWTokens', 'NSCount': 2, 'StripWholeLine': 'FALSE'}
INVS = ['RoundTripCSV', 'RoundTripTSV', 'ArityExact', 'VWFieldsInColumns']
CHARMAPS = [{1: 'x', 2: 'y', 10: 'z'}, {1: 'é', 2: 'ñ', 10: '\u3000'}, {1: '0', 2: '1', 10: '\u00a0'}, {1: 'A', 2: "'", 10: '\t'}, {1: 'x', 2: 'y', 10: '\u2003'}, {1: 'q', 2: 'w', 10: ':'}]
# CSV / TSV only: the letter X is a backslash (there is no escape character) or a control character that str.splitlines()
# breaks on although it is not a line break for files or for the csv module (form feed, file separator)
SPECIAL_MAPS = [{1: '\\', 2: 'y', 10: 'z'}, {1: '\x0c', 2: 'y', 10: 'z'}, {1: '\x1c', 2: 'y', 10: 'z'}]
FIXED = {3: ' ', 4: ',', 5: '"', 6: '\t', 7: '|', 8: '\n', 9: '-'}


def run_spec(V, label, c, emits=('Emit',), coverage=False):
    wd = E.workdir('c16')
    try:
        cfg = E.write_cfg(os.path.join(wd, 'mc.cfg'), constants=c, invariants=INVS + list(emits))
        res = E.run_tlc('Parsers', cfg, coverage=coverage, timeout=900)
        E.require_ok(res, label)
        V.add_tlc(res, label)
        V.tlc_violation(res, label)
        return res
    finally:
        E.cleanup(wd)


def text(seq, cm):
    return ''.join(cm.get(ch) or FIXED[ch] for ch in seq)


def main():
    tier, seed, replay = E.tier_seed()
    V = E.Verdict(PID, tier, seed)
    rng = random.Random(seed * 236887699 + 16)
    V.coverage['rule'] = ('TLC: Parsers.tla at character level - every row of 1..3 (thorough 4) cells of length <= 2 over {letter, space, delimiter, quote} rendered as CSV (RFC-4180, as csv.writer) '
                          'and as TAB-separated line, every VW line over 2 (thorough 3) namespaces with absent / empty / 1-2 token namespaces and single or repeated spaces, every '
                          'namespace map of <= 3 lines over 7 line shapes: RoundTripCSV, RoundTripTSV, ArityExact, VWFieldsInColumns.  Every rendered line goes through the real '
                          'generic_line_parser under the matching --data_source (several character maps incl. non-ASCII) and must give exactly the cells; wrong-arity lines go through '
                          'the streaming loop.  non-trivial = distinct rows with an empty first/last cell, a delimiter or a quote inside a cell, or an absent/empty namespace')
    V.assumptions += ['for a VW namespace with several tokens the two-character prefix removal is accepted on the joined string or per token (the statement leaves it open)',
                      'the spec\'s CSV rendering is cross-checked against csv.writer on every row (machinery check)']
    Vt = E.Verdict(PID, tier, seed)
    r = run_spec(Vt, 'deviation', dict(BASE, Format='"tsv"', CellChars='{1,3}', MaxCellLen=1, MaxCells=3, StripWholeLine='TRUE'), emits=())
    if r.violated != 'RoundTripTSV':
        raise E.MachineryError('deviation control StripWholeLine did not violate RoundTripTSV')
    V.notes['deviation_control'] = 'StripWholeLine=TRUE (strip() of the whole TAB-separated line) violates RoundTripTSV'

    q = tier == 'quick'
    runs = [('csv', dict(BASE, Format='"csv"', CellChars='{1,3,4,5}', MaxCellLen=2, MaxCells=3)),
            ('tsv', dict(BASE, Format='"tsv"', CellChars='{1,3,5,4}', MaxCellLen=2, MaxCells=3)),
            ('tsv-wide', dict(BASE, Format='"tsv"', CellChars='{1,3}', MaxCellLen=1, MaxCells=5 if q else 6)),
            ('vw', dict(BASE, Format='"vw"', CellChars='{1}', MaxCellLen=1, MaxCells=1, NSCount=2 if q else 3))]
    if not q:
        runs.append(('csv-4cells', dict(BASE, Format='"csv"', CellChars='{1,4,5}', MaxCellLen=2, MaxCells=4)))
    for label, c in runs:
        res = run_spec(V, f'Parsers/{label}', c, coverage=(label == 'csv'))
        cases = [(t[1], list(t[2]), t[3]) for t in E.extract_tuples(res.stdout, 'CASE')]
        if not cases:
            raise E.MachineryError('no cases emitted')
        fmt = cases[0][0]
        cm = CHARMAPS[0]
        jobs = []
        chunk = 3000 if fmt != 'vw' else max(200, len(cases) // 12)
        meta = []
        spans = [(i, CHARMAPS[(i // chunk + seed) % len(CHARMAPS)] if i else cm) for i in range(0, len(cases), chunk)]
        if fmt in ('csv', 'tsv'):
            for cm_x in SPECIAL_MAPS:
                spans += [(i, cm_x) for i in range(0, len(cases), chunk)]        # every row once more with each special character as the letter
        for i, cmi in spans:
            part = cases[i:i + chunk]
            lines = [text(c_[1], cmi) for c_ in part]
            if fmt == 'csv':
                # machinery check: the spec's rendering is what csv.writer emits
                for c_, ln in zip(part, lines):
                    buf = io.StringIO()
                    csv.writer(buf, lineterminator='\n').writerow([text(cell, cmi) for cell in c_[2]])
                    if buf.getvalue() != ln:
                        raise E.MachineryError(f'spec CSV rendering {ln!r} differs from csv.writer {buf.getvalue()!r}')
                # the ranking task passes ',' for the CSV sources, the instance-ranking task passes its hard-coded tab: CSV lines are comma-separated for both
                jobs.append({'op': 'parse_lines', 'data_source': rng.choice(['csv-raw', 'ob-csv']), 'lines': lines, 'delimiter': rng.choice([',', ',', '\t'])})
            elif fmt == 'tsv':
                jobs.append({'op': 'parse_lines', 'data_source': 'ob-raw-dump', 'delimiter': '\t', 'lines': lines})
            else:
                ids = [text(s, cmi) for s in ([1, 1], [1, 2], [2, 1])][:c['NSCount']]
                fw = {nid: f'feat{k + 1}' for k, nid in enumerate(ids)}
                jobs.append({'op': 'parse_lines', 'data_source': 'ob-vw', 'lines': lines, 'fw_map': fw, 'header': ['label'] + [f'feat{k + 1}' for k in range(len(ids))]})
            meta.append((part, cmi))
        got = PC.pipe_eval(jobs, modules=['sketch_ops'])
        nontriv = 0
        for (part, cmi), job, r in zip(meta, jobs, got):
            if r is None or 'ok' not in r:
                V.violation(f'raises:{label}', f'generic_line_parser failed: {PC.failure_text(r)}', {'first_line': job['lines'][0]})
                continue
            for (f_, seq, exp), ln, ob in zip(part, job['lines'], r['ok']):
                key = f'{fmt}:line={ln!r}'
                if isinstance(ob, dict):
                    V.violation('raises:' + key, f'parser raised {ob["error"]}', {'line': ln})
                    continue
                if fmt in ('csv', 'tsv'):
                    cells = [text(cell, cmi) for cell in exp]
                    if cells[0] == '' or cells[-1] == '' or any(ch in cell for cell in cells for ch in ',"\t '):
                        nontriv += 1
                    if ob != cells:
                        kind = 'arity' if len(ob) != len(cells) else 'cells'
                        V.violation(f'{kind}:{key}', f'parsed into {ob}, the line holds the cells {cells}', {'line': ln, 'cells': cells, 'data_source': job['data_source']})
                else:
                    lab, per_ns = exp
                    expl = text(lab, cmi)
                    acc = [{None if alt == (0,) else text(alt, cmi) for alt in alts} for alts in per_ns]
                    if any(None in a or '' in a for a in acc):
                        nontriv += 1
                    if len(ob) != len(acc) + 1:
                        V.violation('arity:' + key, f'parsed into {len(ob)} fields, header has {len(acc) + 1}', {'line': ln})
                    elif ob[0] != expl:
                        V.violation('label:' + key, f'label {ob[0]!r}, first token is {expl!r}', {'line': ln})
                    else:
                        for k, (v, a) in enumerate(zip(ob[1:], acc)):
                            if v not in a:
                                V.violation(f'namespace:{key} column=feat{k + 1}', f'column feat{k + 1} = {v!r}, acceptable {sorted(map(str, a))}', {'line': ln, 'fw_map': job['fw_map']})
                                break
        V.count(evaluations=len(cases), nontrivial=nontriv, traces=len(cases))
        V.add_sample({'format': fmt, 'line': jobs[0]['lines'][len(jobs[0]['lines']) // 2], 'parsed': (got[0].get('ok') or [None])[len(jobs[0]['lines']) // 2]})

    # ---- namespace maps
    res = run_spec(V, 'Parsers/nsmap', dict(BASE, Format='"nsmap"', CellChars='{1}', MaxCellLen=1, MaxCells=3), emits=('EmitMap',))
    maps = [(list(t[1]), sorted(t[2]), sorted(t[3])) for t in E.extract_tuples(res.stdout, 'NSMAP')]
    if not maps:
        raise E.MachineryError('no namespace maps emitted')
    shape = {'two': '{id},{f}', 'two_underscore': '{id}_x,{f}', 'three_f32': '{id},{f},f32', 'three_other': '{id},{f},str', 'three_empty': '{id},{f},',
             'three_f32_underscore': '{id}_x,{f},f32', 'three_empty_underscore': '{id}_x,{f},', 'one': '{id}', 'four': '{id},{f},f32,extra'}
    files = []
    for es, _, _ in maps:
        files.append(''.join(shape[k].format(id=f'A{chr(97 + i)}', f=f'feat{i + 1}') + '\n' for i, k in enumerate(es)))
    got = PC.pipe_eval([{'op': 'parse_namespace', 'files': files}], modules=['sketch_ops'])[0]
    if got is None or 'ok' not in got:
        V.violation('raises:nsmap', f'parse_namespace failed: {PC.failure_text(got)}', {'file': files[0]})
    else:
        for (es, emap, efl), txt, ob in zip(maps, files, got['ok']):
            exp_map = {f'A{chr(97 + i - 1)}' + ('_x' if 'underscore' in es[i - 1] else ''): f'feat{i}' for i in emap}
            exp_fl = sorted(f'feat{i}' for i in efl)
            if ob['map'] != exp_map or ob['floats'] != exp_fl:
                V.violation(f'nsmap:{txt!r}', f'parse_namespace gives map {ob["map"]} floats {ob["floats"]}; declared {exp_map} floats {exp_fl}', {'file': txt})
        V.count(evaluations=len(maps), nontrivial=len(maps) // 2, traces=len(maps))

    # ---- wrong-arity lines are rejected as a whole by the streaming loop (never shifted into other columns)
    jobs = []
    for src, delim, cols in (('csv-raw', ',', ['id', 'a', 'b', 'label']), ('ob-raw-dump', '\t', ['id', 'a', 'b', 'label']),
                             # a header whose first column has no name (the index column a data-frame export writes): still a column;
                             # here the column list is the one the tool derives from the header line itself
                             ('csv-raw', ',', ['', 'a', 'b', 'label'])):
        lines = [delim.join(cols) + '\n']
        kinds = []
        for p in range(1, 41):
            k = rng.choice(['ok', 'ok', 'short', 'long', 'empty-cells', 'long-empty-tail', 'long-empty-head', 'short-empty'])
            if k == 'ok':
                lines.append(delim.join([str(p), f'a{p}', f'b{p}', str(p % 2)]) + '\n')
            elif k == 'short':
                lines.append(delim.join([str(p), f'a{p}', str(p % 2)]) + '\n')
            elif k == 'long':
                lines.append(delim.join([str(p), f'a{p}', f'b{p}', 'zz', str(p % 2)]) + '\n')
            elif k == 'long-empty-tail':          # one field too many, the extra one empty (a record ending with the delimiter)
                lines.append(delim.join([str(p), f'a{p}', f'b{p}', str(p % 2), '']) + '\n')
            elif k == 'long-empty-head':
                lines.append(delim.join(['', str(p), f'a{p}', f'b{p}', str(p % 2)]) + '\n')
            elif k == 'short-empty':
                lines.append(delim.join([str(p), '', '']) + '\n')
            else:
                lines.append(delim.join([str(p), '', '', '']) + '\n')
            kinds.append(k)
        jobs.append({'op': 'run_stream', 'columns': cols, 'lines': lines, 'delimiter': delim, 'opts': {'log_parse': False, 'log_rows': True},
                     'args': {'minibatch_size': 4, 'subsampling': 1, 'heuristic': 'Constant', 'data_source': src}})
        jobs[-1]['kinds'] = kinds
        if cols[0] == '':
            jobs[-1]['columns_from_header'] = True
    got = PC.pipe_eval(jobs, modules=['pipe_ops'])
    for job, r in zip(jobs, got):
        src = job['args']['data_source']
        if r is None or 'ok' not in r:
            V.violation(f'raises:stream:{src}', f'streaming run failed: {PC.failure_text(r)}', {'data_source': src})
            continue
        if job.get('columns_from_header'):
            src += ' (unnamed first header column)'
            if r['ok'].get('columns_used') != job['columns']:
                V.violation(f'header-columns:{src}', f'header {job["lines"][0]!r} read as columns {r["ok"].get("columns_used")}; it names {len(job["columns"])} columns: {job["columns"]}', {'header': job['lines'][0]})
                continue
        used = [int(i) for e in r['ok']['events'] if e['e'] == 'batch' for i in e['ids']]
        good = [p for p, k in enumerate(job['kinds'], start=1) if k in ('ok', 'empty-cells')]
        exp_used = good[:(len(good) // 4) * 4]
        if used != exp_used:
            V.violation(f'reject-whole-line:{src}', f'rows used {used}, well-formed rows {exp_used} (a wrong-arity line was kept or a well-formed line with empty cells was dropped)',
                        {'data_source': src, 'kinds': job['kinds']})
        V.count(evaluations=40, nontrivial=sum(1 for k in job['kinds'] if k != 'ok'), traces=1)
    V.coverage['exhaustive'] = True
    return V.finish()


if __name__ == '__main__':
    try:
        sys.exit(main())
    except E.MachineryError as e:
        print(f'MACHINERY-FAILURE {PID}: {e}', file=sys.stderr)
        sys.exit(2)
    except Exception as e:  # unexpected harness error: machinery failure, never a verdict
        import traceback
        traceback.print_exc()
        print(f'MACHINERY-FAILURE {PID}: unexpected {type(e).__name__}: {e}', file=sys.stderr)
        sys.exit(2)
