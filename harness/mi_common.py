"""Shared by the C01-C04 checks: run MIEstimator.tla, collect the emitted cases, evaluate the
real estimator in child processes, cross-check the Python oracle against TLC."""
from __future__ import annotations

import concurrent.futures as cf
import os

from harness import engine as E
from harness import mi_oracle as O

POISONS = [1e300, -1e300, 0.0, 1.0, 3.0, 2147483647.0, -5.0, 1e9, float('nan')]


def mi_constants(N, K, canon, flags, ratios, den=8, whole=False, before=False, bysum=False):
    b = lambda v: 'TRUE' if v else 'FALSE'
    return {
        'N': N, 'K': K, 'Canon': b(canon),
        'Flags': '{' + ', '.join(b(f) for f in flags) + '}',
        'Ratios': '{' + ', '.join(str(r) for r in ratios) + '}',
        'Den': den, 'GatherWholeBuffer': b(whole), 'DetectBeforeSampling': b(before), 'DetectBySum': b(bysum),
    }


def run_mi(verdict, label, constants, invariants, emit=True, timeout=3000, coverage=False):
    wd = E.workdir('mi')
    try:
        cfg = E.write_cfg(os.path.join(wd, 'mc.cfg'), constants=constants,
                          invariants=list(invariants) + (['Emit'] if emit else []))
        E.log(f'tlc {label}')
        res = E.run_tlc('MIEstimator', cfg, timeout=timeout, coverage=coverage)
        E.log(f'tlc done {res.distinct}')
        E.require_ok(res, label)
        verdict.add_tlc(res, label)
        verdict.tlc_violation(res, label)
        cases = []
        if emit:
            for t in E.extract_tuples(res.stdout, 'CASE'):
                _, y, x, c, rnum, S, acc = t
                cases.append({'y': E.fun_to_list(y), 'x': E.fun_to_list(x), 'c': bool(c), 'rnum': int(rnum),
                              'S': [s - 1 for s in E.fun_to_list(S)] if S else [],
                              'vec': {int(p): int(k) for p, k in acc.items()}})
        return res, cases
    finally:
        E.cleanup(wd)


def _chunks(lst, n):
    k = max(1, (len(lst) + n - 1) // n)
    return [lst[i:i + k] for i in range(0, len(lst), k)]


def real_eval(mode, cases, *, poison=None, reps=None, procs=14, env=None, timeout=1800, stride=False, max_crashes=2):
    """Evaluate cases in `procs` child processes.  Returns (results aligned with cases, crashes:
    list of (case_index, rc, stderr)).  A crashed chunk is bisected so that the crashing case is
    identified.  stride=True deals the cases round-robin (balances expensive cases)."""
    E.log(f'real_eval {mode} {len(cases)} cases')
    results = [None] * len(cases)
    crashes = []
    crashes_seen = []
    bisecting = []
    unbisected = []
    warm_numba()

    def work(idxs, depth=0):
        req = {'mode': mode, 'cases': [cases[i] for i in idxs]}
        if poison is not None:
            req['poison'] = poison
        if reps:
            req['reps'] = reps
        rc, out, err = E.run_child('mi_child.py', [], stdin_obj=req, env=env, timeout=timeout)
        if rc == 0 and out and 'results' in out and len(out['results']) == len(idxs):
            return [(idxs, out['results'], None)]
        if len(idxs) == 1:
            crashes_seen.append(idxs[0])
            return [(idxs, None, (rc, err))]
        if len(crashes_seen) >= max_crashes or (depth == 0 and len(bisecting) >= max_crashes):
            # enough concrete crashing cases identified / being identified: do not bisect further chunks
            unbisected.append(idxs)
            return [(idxs, None, None)]
        if depth == 0:
            bisecting.append(1)
        mid = len(idxs) // 2
        left = work(idxs[:mid], depth + 1)
        if any(b is not None for _, _, b in left) and len(crashes_seen) >= max_crashes:
            unbisected.append(idxs[mid:])
            return left + [(idxs[mid:], None, None)]
        return left + work(idxs[mid:], depth + 1)

    if not cases:
        return results, crashes
    procs = max(1, min(procs, len(cases)))
    if stride:
        spans = [list(range(k, len(cases), procs)) for k in range(procs)]
    else:
        k = (len(cases) + procs - 1) // procs
        spans = [list(range(lo, min(len(cases), lo + k))) for lo in range(0, len(cases), k)]
    with cf.ThreadPoolExecutor(max_workers=procs) as ex:
        for parts in ex.map(work, spans):
            for idxs, res, bad in parts:
                if res is not None:
                    for i, r in zip(idxs, res):
                        results[i] = r
                elif bad is not None:
                    crashes.append((idxs[0], bad[0], bad[1]))
    return results, crashes


_WARM = False


def warm_numba():
    """Compile the estimator once (fills NUMBA_CACHE_DIR) before children start in parallel."""
    global _WARM
    if _WARM:
        return
    _WARM = True
    E.run_child('mi_child.py', [], stdin_obj={'mode': 'score', 'cases': [[[0, 1], [1, 0], 1.0, True]]}, timeout=600)


def tol(expected, scale=1.0):
    return 3e-6 + 3e-6 * (abs(expected) + scale)


def check_oracle_against_tlc(cases, den=8):
    """The Python transcription must reproduce TLC's vectors on every enumerated state."""
    bad = []
    for cs in cases:
        n = len(cs['y'])
        if cs['rnum'] >= den:
            comb = O.spec_score(cs['y'], cs['x'], cs['c'])
        else:
            comb = O.sample_score(cs['y'], cs['x'], cs['c'], O.spec_sample(cs['x'], cs['rnum'], den))
        if O.primevec(comb, n) != cs['vec']:
            bad.append(cs)
    return bad
