#!/bin/sh
# usage: try_seeded.sh <worktree> <seed-id> <check-id> [tier]
# saves patch+demo under /verif/seeded/<seed-id>/, verifies the demo (fails with change, passes without),
# applies the patch to /repo, runs the check, reverts /repo.
WT="$1"; SID="$2"; CID="$3"; TIER="${4:-quick}"
D=/verif/seeded/$SID
mkdir -p "$D"
git -C "$WT" diff > "$D/patch.diff"
cp "$WT"/demo_*.py "$D/" 2>/dev/null
export NUMBA_CACHE_DIR=/tmp/wt-scratch-$SID/numba; mkdir -p "$NUMBA_CACHE_DIR"
DEMO=$(ls "$WT"/demo_*.py | head -1)
( cd "$WT" && PYTHONPATH="$WT" /venv/bin/python "$DEMO" >/tmp/wt-scratch-$SID/demo_with.log 2>&1 ); RC_WITH=$?
( cd "$WT" && git apply -R "$D/patch.diff" && PYTHONPATH="$WT" /venv/bin/python "$DEMO" >/tmp/wt-scratch-$SID/demo_without.log 2>&1; echo $? > /tmp/wt-scratch-$SID/rc_without; git apply "$D/patch.diff" )
RC_WITHOUT=$(cat /tmp/wt-scratch-$SID/rc_without)
echo "demo with change: rc=$RC_WITH ; without: rc=$RC_WITHOUT"
cd /repo && git apply "$D/patch.diff" || { echo "patch does not apply to /repo"; exit 2; }
cd /verif && ./check "$CID" --tier "$TIER" > "$D/check_$CID.log" 2>&1; RC=$?
git -C /repo checkout -- . 
echo "check $CID rc=$RC"; grep -c "^VIOLATION" "$D/check_$CID.log"; grep "violations by kind\|^\[$CID\]\|MACHINERY" "$D/check_$CID.log" | cut -c1-400
grep -A1 "^VIOLATION" "$D/check_$CID.log" | grep -v "^VIOLATION\|^--" | head -3 | cut -c1-400
git -C /repo status --short | grep -v "^??" | head -3
