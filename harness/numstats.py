"""Beyond the listed properties: numeric_feature_statistics.tsv (NumericStats.tla) bound to the real
compute_bounds_increment / summarize_feature_bounds_for_transformers and to real CLI runs.
Usage: ./check numstats [--tier quick|thorough].  Not a MANIFEST check (no listed property); exit 0 = every
replayed state and every recorded run is a behaviour of NumericStats.tla; 1 = a mismatch (printed); 2 = machinery."""
from __future__ import annotations

import csv
import json
import math
import os
import random
import sys

sys.path.insert(0, os.path.dirname(os.path.dirname(os.path.abspath(__file__))))
from harness import engine as E
from harness import pipe_common as PC

INVS = ['MinMaxAreGlobalOverLoopBatches', 'MedianWithinBounds', 'NaNOnlyFromAllNaNBatch', 'UniqueWithinBatchBounds']


def main():
    tier, seed, _ = E.tier_seed()
    rng = random.Random(seed + 4242)
    q = tier == 'quick'
    bad = 0
    wd = E.workdir('numstats')
    try:
        mc = E.write_mc(wd, 'NumericStats', {'MC_NaN': '-1'})
        cfg = E.write_cfg(os.path.join(wd, 'mc.cfg'), constants={'Values': '{1, 2, 5}', 'NaN': '<- MC_NaN', 'MB': 2, 'TailMin': 0, 'MaxRows': 6 if q else 8}, invariants=INVS + ['Emit'])
        res = E.run_tlc(mc, cfg, timeout=900, coverage=True)
        E.require_ok(res, 'NumericStats')
        if not res.ok:
            print('NumericStats.tla invariant violated:', res.violated)
            return 1
        for a in ('AddRow', 'LoopBatch', 'CloseFile', 'Summarise', 'NoTable'):
            if res.coverage.get(a, (0, 0))[0] == 0:
                raise E.MachineryError(f'action {a} never taken')
        cases = {}
        for t in E.extract_tuples(res.stdout, 'NSTAT'):
            loop = tuple(tuple(b) for b in t[1])
            cases[loop] = t[3]
        print(f'NumericStats.tla: {res.distinct} states, invariants hold, {len(cases)} distinct loop-batch sequences emitted')
        keys = list(cases)
        items = [{'loop': [['NaN' if v == -1 else v for v in b] for b in loop]} for loop in keys]
        got = PC.pipe_eval([{'op': 'numeric_stats', 'items': items[i:i + 300]} for i in range(0, len(items), 300)], modules=['stats_ops'])
        flat = []
        for r in got:
            if r is None or 'ok' not in r:
                raise E.MachineryError('numeric_stats failed: ' + PC.failure_text(r))
            flat += r['ok']
        for loop, ob in zip(keys, flat):
            tab = cases[loop]
            why = None
            if 'error' in ob:
                why = 'raised ' + ob['error']
            elif not loop:
                if ob['table'] is not None:
                    why = f'a table {ob["table"]} without any loop batch'
            elif ob['table'] is None:
                why = 'no table'
            else:
                t = ob['table']
                tab = dict(tab) if not isinstance(tab, dict) else tab
                if tab['nan']:
                    if not (t['mn'] == 'nan' and t['mx'] == 'nan' and t['med'] == 'nan'):
                        why = f'table {t}; an all-NaN batch makes minimum, maximum and median NaN'
                else:
                    med = tab['med'][0] / tab['med'][1]
                    if t['mn'] == 'nan' or t['mn'] != tab['mn'] or t['mx'] != tab['mx'] or abs(t['med'] - med) > 0.005 + 1e-9:
                        why = f'table {t}; specified min {tab["mn"]} max {tab["mx"]} median-of-means {med:.4f}'
                if why is None and t['uq'] != tab['uq']:
                    why = f'unique {t["uq"]}, specified {tab["uq"]}'
            if why:
                bad += 1
                if bad <= 5:
                    print(f'MISMATCH numeric_stats loop={[list(b) for b in loop]}: {why}')
        print(f'replayed {len(keys)} loop-batch sequences through compute_bounds_increment / summarize_feature_bounds_for_transformers: {bad} mismatches')

        # ---- CLI runs: ob-csv with a float column, batches recorded by the recorder, table read from the output folder
        # (a tail batch needs 1024 < rows < MB; with an odd number of loop batches the median is a middle element and the 32-bit arithmetic of TLC suffices)
        scen = [(150, 3, 0, 0.05), (1100, 3, 1030, 0.0), (200, 4, 7, 0.3)] if q else [(150, 3, 0, 0.05), (1100, 3, 1030, 0.0), (200, 4, 7, 0.3), (120, 9, 100, 0.1), (1200, 1, 1025, 0.0), (100, 5, 0, 0.9), (100, 6, 0, 0.2)]
        tmc = E.write_mc(wd, 'TraceNumericStats', {'MC_NaN': '-1'}, name='MCT')
        for k, (MB, nb, extra, blank) in enumerate(scen):
            sub = os.path.join(wd, f'cli{k}')
            ds = os.path.join(sub, 'ds')
            os.makedirs(ds)
            n = MB * nb + extra
            nums = [('' if rng.random() < blank else str(rng.randrange(0, 100))) for _ in range(n)]
            if k == 2:
                for i in range(MB, 2 * MB):
                    nums[i] = ''          # one batch without a single number
            with open(os.path.join(ds, 'dataset_desc.json'), 'w') as f:
                json.dump({'data_features': [{'name': 'id', 'type': 'string'}, {'name': 'num', 'type': 'float'}, {'name': 'b', 'type': 'string'}, {'name': 'label', 'type': 'string'}]}, f)
            with open(os.path.join(ds, 'data.csv'), 'w') as f:
                f.write('id,num,b,label\n')
                for i in range(n):
                    f.write(f'{i + 1},{nums[i]},{rng.randrange(4)},{rng.randrange(2)}\n')
            evf = os.path.join(sub, 'events.json')
            rc, err = PC.run_cli(dict(task='ranking', data_path='ds', data_source='ob-csv', minibatch_size=MB, subsampling=1, heuristic='MI-numba-randomized', num_threads=1,
                                      output_folder='out'), sub, events=evf, rec_opts={'log_parse': False})
            if rc != 0 or not os.path.exists(evf):
                print(f'MISMATCH cli scenario {k}: ranking task exited {rc}: {err[-300:]}')
                bad += 1
                continue
            ev = json.load(open(evf))
            trace = [{'e': 'config', 'mb': MB}]
            for e in ev:
                if e['e'] == 'batch':
                    trace.append({'e': 'batch', 'vals': [(-1 if nums[int(i) - 1] == '' else int(nums[int(i) - 1])) for i in e['ids']]})
            p = os.path.join(sub, 'out', 'numeric_feature_statistics.tsv')
            if os.path.exists(p):
                with open(p, newline='') as f:
                    rows = list(csv.reader(f, delimiter='\t'))
                r = [x for x in rows[1:] if x[0] == 'num']
                if len(r) != 1:
                    print(f'MISMATCH cli scenario {k}: table rows {rows}')
                    bad += 1
                    continue
                mn, mx, med, uq = float(r[0][1]) if r[0][1] else math.nan, float(r[0][2]) if r[0][2] else math.nan, float(r[0][3]) if r[0][3] else math.nan, int(float(r[0][4]))
                isnan = math.isnan(mn) or math.isnan(mx) or math.isnan(med)
                trace.append({'e': 'table', 'present': True, 'nan': isnan, 'mn': 0 if isnan else int(round(mn)), 'mx': 0 if isnan else int(round(mx)),
                              'med100': 0 if isnan else int(round(med * 100)), 'uq': uq})
            else:
                trace.append({'e': 'table', 'present': False, 'nan': False, 'mn': 0, 'mx': 0, 'med100': 0, 'uq': 0})
            tf = os.path.join(wd, f't{k}.ndjson')
            with open(tf, 'w') as f:
                for e in trace:
                    f.write(json.dumps(e) + '\n')
            tcfg = E.write_cfg(os.path.join(wd, f't{k}.cfg'), spec='TSpec', constants={'Values': '{0}', 'NaN': '<- MC_NaN', 'MB': MB, 'TailMin': 1024, 'MaxRows': 0}, postcondition='Accepted')
            r_ = E.run_tlc(tmc, tcfg, workers=1, env={'TRACE_FILE': tf}, timeout=300)
            E.require_ok(r_, 'TraceNumericStats')
            nbatch = len(trace) - 2
            print(f'cli scenario {k} (MB={MB}, {nb} loop batches + {extra} rows, blank rate {blank}): {nbatch} batches recorded, table {trace[-1]} -> {"accepted" if r_.ok else "REJECTED at event " + str(r_.depth)}')
            if not r_.ok:
                bad += 1
            if k == 0:
                # negative control: a table whose maximum is one too large
                t2 = [dict(e) for e in trace]
                t2[-1]['mx'] += 1
                with open(tf, 'w') as f:
                    for e in t2:
                        f.write(json.dumps(e) + '\n')
                if E.run_tlc(tmc, tcfg, workers=1, env={'TRACE_FILE': tf}, timeout=300).ok:
                    raise E.MachineryError('negative control: wrong maximum accepted')
    finally:
        E.cleanup(wd)
    return 1 if bad else 0


if __name__ == '__main__':
    try:
        sys.exit(main())
    except E.MachineryError as e:
        print(f'MACHINERY-FAILURE numstats: {e}', file=sys.stderr)
        sys.exit(2)
    except Exception as e:  # unexpected harness error: machinery failure, never a verdict
        import traceback
        traceback.print_exc()
        print(f'MACHINERY-FAILURE numstats: unexpected {type(e).__name__}: {e}', file=sys.stderr)
        sys.exit(2)
