"""C12 - transformations compute what their names say; degenerate ones are dropped."""
from __future__ import annotations

import itertools
import math
import os
import random
import re
import sys

sys.path.insert(0, os.path.dirname(os.path.dirname(os.path.abspath(__file__))))
from harness import engine as E
from harness import pipe_common as PC

PID = 'C12'


def tlc_part(V, label, mcdefs, consts, invs, tag):
    wd = E.workdir('c12')
    try:
        mc = E.write_mc(wd, 'Transformers', mcdefs)
        cfg = E.write_cfg(os.path.join(wd, 'mc.cfg'), constants=consts, invariants=invs)
        res = E.run_tlc(mc, cfg, timeout=900)
        E.require_ok(res, label)
        V.add_tlc(res, label)
        V.tlc_violation(res, label)
        return res, list(E.extract_tuples(res.stdout, tag)) if tag else []
    finally:
        E.cleanup(wd)


# one scalar function per transformer NAME (written from the name, not from the vault's expression)
def _nan_guard(f):
    def g(x, ctx):
        try:
            return f(x, ctx)
        except (ValueError, ZeroDivisionError, OverflowError):
            return float('nan')
    return g


def _log(v):
    if v == 0:
        return float('-inf')
    if v < 0:
        return float('nan')
    return math.log(v)


def _round0(v):
    """round half to even, keeping the sign of a zero result (as numpy.round does: the emitted text distinguishes -0.0 and 0.0)"""
    r = float(round(v))
    return math.copysign(0.0, v) if r == 0 else r


NAMED = {
    '_tr_sqrt': lambda x, c: math.sqrt(x) if x >= 0 else float('nan'),
    '_tr_log(x+1)': lambda x, c: _log(x + 1),
    '_tr_sqrt(abs(x))': lambda x, c: math.sqrt(abs(x)),
    '_tr_log(abs(x)+1)': lambda x, c: _log(abs(x) + 1),
    '_tr_div(x,abs(x))*log(abs(x))': lambda x, c: float('nan') if x == 0 else (x / abs(x)) * _log(abs(x)),
    '_tr_log(x + sqrt(pow(x,2), 1)': lambda x, c: _log(x + math.sqrt(x * x + 1)),
    '_tr_log*sqrt': lambda x, c: (_log(x + 1) * math.sqrt(x)) if x >= 0 else float('nan'),
    '_tr_log*100': lambda x, c: float(round(_log(x + 1) * 100)) if x > -1 else (float('-inf') if x == -1 else float('nan')),
    '_tr_nonzero': lambda x, c: 1.0 if x != 0 else 0.0,
    '_tr_round(div(x,max))': lambda x, c: float('nan') if (c['max'] != c['max'] or x != x) else _round0(x / c['max']) if c['max'] != 0 else (float('nan') if x == 0 else math.copysign(float('inf'), x)),      # IEEE division by a zero maximum
}


def parse_num(s):
    if s is None:
        return float('nan')
    s = s.replace('"', '')
    return 0.0 if s == '' else float(s)


def same(a, b, rel=1e-9):
    if math.isnan(a) or math.isnan(b):
        return math.isnan(a) and math.isnan(b)
    if math.isinf(a) or math.isinf(b):
        return a == b
    return abs(a - b) <= rel * max(1.0, abs(a), abs(b))


def main():
    tier, seed, replay = E.tier_seed()
    V = E.Verdict(PID, tier, seed)
    rng = random.Random(seed * 275604541 + 12)
    V.coverage['rule'] = ('TLC: Transformers.tla - (1) every preset list of length <= 3 (thorough 4) over the vault\'s presets, one action per namespace: CollectionIsUnion; (2) the keep/drop '
                          'rule on every multiset of output symbols {NaN,a,b,c} on <= 8 (thorough 12) rows and on every multiset within one row of the 80% / 75% thresholds up to 60 (thorough 160) rows; (3) the fw sqrt family for every '
                          '(resolution, threshold, x) on the integer grid 0..150 and the probability grid 0..1 step 0.01 with exact integer rounding.  Each is bound to the real code: '
                          'transformer_collection of every list, construct_new_features on a column realising every multiset, every emitted fw column compared value by value; the '
                          'log kind and the minimal/default formulas are evaluated by a scalar oracle written from the transformer NAMES on negatives, zeros, huge values and empties. '
                          'non-trivial = distinct lists with >= 2 presets + multisets with >= 2 symbols + fw cells with x > threshold')
    V.assumptions += ['log-kind and named formulas: math-library oracle (transcendental leaves), relative tolerance 1e-9',
                      'columns whose only non-NaN symbol is unique but NaN is present are ambiguous for "more than one distinct value" and not judged']

    r = PC.pipe_eval([{'op': 'vault'}], modules=['sketch_ops'])[0]
    if not r or 'ok' not in r:
        raise E.MachineryError('cannot read the transformer vault: ' + PC.failure_text(r))
    vault = r['ok']
    presets = sorted(vault)
    allnames = sorted({n for p in vault.values() for n in p})
    tid = {n: f't{i}' for i, n in enumerate(allnames)}
    preset_def = '[p \\in {' + ', '.join(f'"{p}"' for p in presets) + '} |-> CASE ' + ' [] '.join(
        f'p = "{p}" -> {{' + ', '.join(f'"{tid[n]}"' for n in sorted(vault[p])) + '}' for p in presets) + ']'
    base = {'PresetNames': '{' + ', '.join(f'"{p}"' for p in presets) + '}', 'Preset': '<- MC_Preset', 'MaxList': 3 if tier == 'quick' else 4, 'ResetInsideLoop': 'FALSE',
            'MaxRowsKeep': 8 if tier == 'quick' else 12, 'MaxRowsBig': 60 if tier == 'quick' else 160, 'SqrtBound': 13, 'Resolutions': '{1,10,50,100}', 'Thresholds': '{1,2,4,8,16,32,64,96}', 'MaxX': 150, 'Scale': 1}
    defs = {'MC_Preset': preset_def}
    Vt = E.Verdict(PID, tier, seed)
    rr, _ = tlc_part(Vt, 'deviation', defs, dict(base, Part='"presets"', MaxList=2, ResetInsideLoop='TRUE'), ['CollectionIsUnion'], None)
    if rr.violated != 'CollectionIsUnion':
        raise E.MachineryError('deviation control ResetInsideLoop did not violate CollectionIsUnion')
    V.notes['deviation_control'] = 'ResetInsideLoop=TRUE violates CollectionIsUnion'

    # ---- (1) preset lists
    res, lists = tlc_part(V, 'Transformers/presets', defs, dict(base, Part='"presets"'), ['CollectionIsUnion', 'UnionOrderFree', 'EmitPresets'], 'PRESETS')
    lists = sorted({(tuple(t[1]), t[2]) for t in lists})
    got = PC.pipe_eval([{'op': 'transformer_collection', 'presets': [','.join(l) for l, _ in lists]}], modules=['sketch_ops'])[0]
    if not got or 'ok' not in got:
        raise E.MachineryError('transformer_collection op failed: ' + PC.failure_text(got))
    for (l, n), ob in zip(lists, got['ok']):
        key = f'preset-list:{",".join(l)}'
        union = {}
        for p in l:
            union.update(vault[p])
        if '__error__' in ob:
            V.violation('raises:' + key, f'FeatureTransformerGeneric raised {ob["__error__"]}', {'preset': ','.join(l)})
        elif set(ob) != set(union) or len(ob) != n:
            V.violation(key, f'{len(ob)} transformers selected, the union of the presets has {len(union)} (missing e.g. {sorted(set(union) - set(ob))[:3]})', {'preset': ','.join(l)})
    V.count(evaluations=len(lists), nontrivial=sum(1 for l, _ in lists if len(set(l)) >= 2), traces=len(lists))
    V.add_sample({'preset_list': list(lists[len(lists) // 2][0]), 'union_size': lists[len(lists) // 2][1]})

    # ---- (2) keep rule
    res, keeps = tlc_part(V, 'Transformers/keep', defs, dict(base, Part='"keep"'), ['KeepBoundaries', 'EmitKeep'], 'KEEP')
    # two renderings of the model's symbols (NaN, a, b, c) as input cells for x_tr_sqrt: plain values, and one in which
    # a and b are the two zeros (sqrt gives the texts '0.0' and '-0.0': distinct values of the emitted text column)
    # third rendering: symbol a is the EMPTY cell (parsed as 0, not as NaN - a column that is 75-80% empty is still emitted)
    for rendering, sym in (('plain', {0: '-1', 1: '0', 2: '1', 3: '4'}), ('signed-zero', {0: '-1', 1: '0', 2: '-0.0', 3: '4'}), ('empty-cells', {0: '-1', 1: '', 2: '1', 3: '4'})):
        items = []
        for _, counts, keep, amb in keeps:
            vals = [sym[i] for i in range(4) for _ in range(counts[i])]
            rng.shuffle(vals)
            items.append({'values': vals, 'preset': 'minimal', 'want': ['x_tr_sqrt']})
        got = PC.pipe_eval([{'op': 'transform_columns', 'items': items[i:i + 100]} for i in range(0, len(items), 100)], modules=['sketch_ops'])
        flat = []
        for r_ in got:
            if not r_ or 'ok' not in r_:
                raise E.MachineryError('transform_columns failed: ' + PC.failure_text(r_))
            flat += r_['ok']
        nontriv = 0
        for (_, counts, keep, amb), it, ob in zip(keeps, items, flat):
            key = f'keep-rule:{rendering}:symbols(NaN,a,b,c)={list(counts)}'
            if sum(1 for c in counts if c) >= 2:
                nontriv += 1
            if 'error' in ob:
                V.violation('raises:' + key, f'construct_new_features raised {ob["error"]}', it)
                continue
            emitted = 'x_tr_sqrt' in ob['new']
            if amb:
                continue
            if emitted != keep:
                n = sum(counts)
                V.violation(key, f'column with {n} rows (NaN x{counts[0]}, values x{list(counts[1:])}) was {"emitted" if emitted else "dropped"}; rule (>1 distinct, most frequent < 80%, NaN < 75%) says {"emit" if keep else "drop"}', it)
            if not ob['untouched']:
                V.violation('untouched:' + key, 'input columns changed', it)
        V.count(evaluations=len(keeps), nontrivial=nontriv, traces=len(keeps))

    # ---- (3) fw family
    ties_judged = [0]
    # the dyadic grid (multiples of 1/64 up to 10, thresholds 1, 2, 4, 8) contains the EXACT ties sqrt(x-T)*R = k + 1/2
    # (x-T = 1/4, 9/4, 25/4 for R=1; 1/16, 9/16 for R=10; 1/16 for R=50; 1/64, 9/64 for R=100), exact also in binary floating point
    for scale, maxx, sb, label in ((1, 150, 13, 'integers'), (100, 100, 2, 'probabilities'), (64, 640, 4, 'dyadic')):
        extra = {'Thresholds': '{64,128,256,512}'} if label == 'dyadic' else {}
        res, fws = tlc_part(V, f'Transformers/fw-{label}', defs, dict(base, Part='"fw"', Scale=scale, MaxX=maxx, SqrtBound=sb, **extra), ['FWShape', 'TieIsHalfEven', 'EmitFW'], 'FW')
        exp = {}
        for _, (rs, gt, x), val, tie, even in fws:
            exp[(rs, gt, x)] = (val, tie, even)
        xs = list(range(0, maxx + 1))
        values = [str(x) if scale == 1 else repr(x / scale) for x in xs]
        r_ = PC.pipe_eval([{'op': 'transform_columns', 'items': [{'values': values, 'preset': 'fw-transformers'}]}], modules=['sketch_ops'])[0]
        if not r_ or 'ok' not in r_ or 'error' in r_['ok'][0]:
            V.violation(f'raises:fw-{label}', f'construct_new_features failed: {PC.failure_text(r_) or r_["ok"][0].get("error")}', {'values': values[:10]})
            continue
        ob = r_['ok'][0]
        pat = re.compile(r'^x_tr_fw_(prob_)?(sqrt|log)_res_(\d+)_gt_([0-9.]+)$')
        nfw = 0
        for col in ob['new']:
            m = pat.match(col)
            if not m:
                if not any(col == 'x' + k for k in vault['fw-transformers']):
                    V.violation(f'name:fw-{label}:{col}', f'emitted column {col!r} is not <feature><transformer name>', {'column': col})
                continue
            prob, kind, rs, gts = bool(m.group(1)), m.group(2), int(m.group(3)), m.group(4)
            if prob != (scale == 100):
                continue
            gt = int(round(float(gts) * scale))
            if label == 'dyadic' and gt > maxx:
                continue
            nfw += 1
            for x, txt in zip(xs, ob['values'][col]):
                realv = float(txt)
                key = f'fw:{col}:x={x / scale if scale > 1 else x}'
                if kind == 'sqrt':
                    val, tie, even = exp[(rs, gt, x)]
                    e = (x / scale) if val[0] == 'id' else float(val[1])
                    if label == 'dyadic' and tie:
                        e = float(even)       # an exact tie, exact in floating point too: round-half-to-even
                        ties_judged[0] += 1
                        ok = same(realv, e, 1e-12)
                    else:
                        ok = same(realv, e, 1e-12) or (tie and same(realv, e + 1, 1e-12))
                    if not ok and val[0] == 'int' and x > gt and label != 'dyadic':
                        # float evaluation of (x-gt) on the decimal grid may sit within rounding distance of a tie: accept only if the exact value is that close
                        exact = math.sqrt((x - gt) / scale) * rs
                        ok = abs(exact - math.floor(exact) - 0.5) < 1e-9 and abs(realv - round(exact)) <= 1
                else:
                    if x < gt:
                        e = x / scale
                    elif x == gt:
                        e = 0.0
                    else:
                        e = float(round(math.log((x - gt) / scale) * rs))
                        exact = math.log((x - gt) / scale) * rs
                        if abs(exact - math.floor(exact) - 0.5) < 1e-9:
                            e = realv if abs(realv - exact) <= 0.5 + 1e-9 else e
                    ok = same(realv, e, 1e-12)
                if not ok:
                    V.violation(key, f'value {txt}; the name says {"x" if x < gt else "0" if x == gt else f"round({kind}(x-{gt / scale if scale > 1 else gt})*{rs})"} = {e}', {'column': col, 'x': x / scale})
                    break
        if nfw < (20 if label != 'dyadic' else 8):
            raise E.MachineryError(f'only {nfw} fw columns were emitted for the {label} grid (vacuous)')
        if label == 'dyadic':
            if sum(1 for v_ in exp.values() if v_[1]) < 20:
                raise E.MachineryError(f'only {sum(1 for v_ in exp.values() if v_[1])} exact ties on the dyadic grid (vacuous)')
            V.notes['fw_exact_ties_judged'] = ties_judged[0]
        V.count(evaluations=nfw * len(xs), nontrivial=nfw * len(xs) // 2, traces=nfw)
        V.notes[f'fw_columns_{label}'] = nfw

    # ---- (3b) formulas that depend on the whole column (max, mean, std, order): long columns, repeated values, block-wise ranges
    wj = [{'op': 'transform_whole_column', 'rows': 20000, 'seed': seed * 3 + 1, 'presets': 'default'},
          {'op': 'transform_whole_column', 'rows': 20000 if tier == 'quick' else 40000, 'seed': seed * 3 + 2, 'presets': 'minimal,extended'}]
    if tier != 'quick':
        wj.append({'op': 'transform_whole_column', 'rows': 20000, 'seed': seed * 3 + 3, 'presets': 'verbose,extended_rounded'})
    for job, r_ in zip(wj, PC.pipe_eval(wj, modules=['sketch_ops'])):
        key = f'whole-column:presets={job["presets"]} rows={job["rows"]} seed={job["seed"]}'
        if not r_ or 'ok' not in r_:
            V.violation('raises:' + key, f'construct_new_features failed on a long column: {PC.failure_text(r_)}', job)
            continue
        ob = r_['ok']
        if ob['checked'] < 4:
            raise E.MachineryError(f'{key}: only {ob["checked"]} formulas evaluated (vacuous)')
        for b_ in ob['bad'][:3]:
            V.violation(f'{key} column={b_["column"]}', b_['why'], job)
        V.count(evaluations=ob['checked'], nontrivial=ob['checked'], traces=1)
        V.notes['whole_column_' + job['presets']] = {'formulas': ob['checked'], 'emitted': ob['emitted']}

    # ---- (4) named formulas of minimal / default on adversarial inputs
    grids = [['-3', '-1', '0', '', '1', '2', '7', '100', '1e300', '0.5', '-0.25', '12', '3', '"4"'],
             ['0', '0', '1', '5', '9', '', '2', '1e-300', '30', '-7', '8', '64'],
             ['-3', '-1', '0', '', '-2', '0', '-7', '', '-1', '-12', '0', '-0.5'],            # no positive value: the column maximum is 0
             ['-5', '-5', '-1', '-2', '-9', '-3', '-30', '-7'],                                # all negative
             ['1', '4', None, '9', None, '16', '2', '3', '25', '7']]                           # real missing cells (float NaN in the frame, not empty strings): parsed as NaN
    for gi, grid in enumerate(grids):
        for preset in ('minimal', 'default'):
            r_ = PC.pipe_eval([{'op': 'transform_columns', 'items': [{'values': grid, 'preset': preset}]}], modules=['sketch_ops'])[0]
            if not r_ or 'ok' not in r_ or 'error' in r_['ok'][0]:
                V.violation(f'raises:named:{preset}', f'construct_new_features failed on {grid}', {'values': grid})
                continue
            ob = r_['ok'][0]
            xs = [parse_num(s) for s in grid]
            ctx = {'max': float('nan') if any(x != x for x in xs) else max(xs)}          # numpy's max propagates NaN
            for col in ob['new']:
                tname = col[1:]
                if tname not in NAMED:
                    V.violation(f'name:{preset}:{col}', f'emitted column {col!r} is not <feature><transformer name of the preset>', {'column': col})
                    continue
                f = _nan_guard(NAMED[tname])
                for s_in, x, txt in zip(grid, xs, ob['values'][col]):
                    e = f(x, ctx)
                    if not same(float(txt), e):
                        V.violation(f'formula:{tname}:x={s_in!r}', f'{col} = {txt} for input {s_in!r}; the named formula gives {e!r}', {'values': grid, 'column': col})
                        break
            # the emission rule, judged on the text of the harness's own evaluation of each named formula of the preset
            import numpy as _np
            for tname in vault[preset]:
                if tname not in NAMED:
                    continue
                f = _nan_guard(NAMED[tname])
                with _np.errstate(all='ignore'):
                    texts = _np.array([f(x, ctx) for x in xs], dtype=float).astype(str)
                u_, c_ = _np.unique(texts, return_counts=True)
                share = c_.max() / c_.sum()
                nanp = float((texts == 'nan').sum()) / len(texts)
                if abs(share - 0.8) < 1e-9 or abs(nanp - 0.75) < 1e-9:
                    continue
                keep = len(u_) > 1 and share < 0.8 and nanp < 0.75
                if keep != (('x' + tname) in ob['new']):
                    V.violation(f'keep-rule:named:{preset}:{tname}:grid{gi}', f'column x{tname} was {"emitted" if not keep else "dropped"}; the named formula on {grid} gives {sorted(set(texts.tolist()))[:6]} ({len(u_)} distinct, majority {share:.2f}, NaN {nanp:.2f}) -> {"emit" if keep else "drop"}', {'values': grid, 'preset': preset})
            V.count(evaluations=len(ob['new']) * len(grid), nontrivial=len(ob['new']), traces=len(ob['new']))
    # ---- (5) the batch path over several mini-batches of one run (one process): which transformed columns a batch gets is
    # decided on THAT batch alone - a transformer that is degenerate on an earlier batch is still emitted on a later one
    import numpy as _np2
    seqs = [[['3', '1', '2', '7', '5', '9', '4', '8', '6', '2', '11', '13'], ['0', '0', '0', '0', '5', '1', '2', '3', '4', '6'], ['1', '2', '3', '4', '5', '6', '7', '8', '9', '10']],
            [['1', '1', '1', '1', '1', '1', '1', '1'], ['1', '2', '3', '4', '5', '6', '7', '0', '0', '0', '9', '12']]]
    for si, seq in enumerate(seqs):
        for preset in ('default', 'minimal'):
            its = [{'columns': ['x', 'other', 'label'], 'rows': [[v_, 'k' + str(i_ % 3), str(i_ % 2)] for i_, v_ in enumerate(vals_)], 'numeric': ['x'], 'keep_state': bi_ > 0,
                    'args': {'heuristic': 'MI-numba-randomized', 'label_column': 'label', 'transformers': preset, 'combination_number_upper_bound': 10 ** 6}} for bi_, vals_ in enumerate(seq)]
            r_ = PC.pipe_eval([{'op': 'batch_features', 'items': its}], modules=['pipe_ops'])[0]
            if not r_ or 'ok' not in r_:
                V.violation(f'raises:batch-sequence:{preset}', f'compute_batch_ranking failed: {PC.failure_text(r_)}', {'batches': seq})
                continue
            for bi_, (vals_, ob_) in enumerate(zip(seq, r_['ok']), start=1):
                key = f'batch-sequence{si}:{preset}:batch={bi_} of {len(seq)} x={vals_}'
                if 'error' in ob_:
                    V.violation('raises:' + key, ob_['error'], {'batches': seq})
                    continue
                xs_ = [parse_num(s_) for s_ in vals_]
                ctx_ = {'max': max(xs_)}
                for tname in vault[preset]:
                    if tname not in NAMED:
                        continue
                    f_ = _nan_guard(NAMED[tname])
                    with _np2.errstate(all='ignore'):
                        texts = _np2.array([f_(x_, ctx_) for x_ in xs_], dtype=float).astype(str)
                    u_, c_ = _np2.unique(texts, return_counts=True)
                    share, nanp = c_.max() / c_.sum(), float((texts == 'nan').sum()) / len(texts)
                    if abs(share - 0.8) < 1e-9 or abs(nanp - 0.75) < 1e-9:
                        continue
                    keep = len(u_) > 1 and share < 0.8 and nanp < 0.75
                    if keep != (('x' + tname) in ob_['columns']):
                        V.violation(f'keep-rule:{key}:{tname}', f'column x{tname} was {"emitted" if not keep else "dropped"} in mini-batch {bi_}; on this batch the named formula gives {len(u_)} distinct values, majority {share:.2f}, NaN {nanp:.2f} -> {"emit" if keep else "drop"}', {'batches': seq, 'preset': preset})
                V.count(evaluations=len(vault[preset]), nontrivial=len(vault[preset]), traces=1)
    V.coverage['exhaustive'] = True
    return V.finish()


if __name__ == '__main__':
    try:
        sys.exit(main())
    except E.MachineryError as e:
        print(f'MACHINERY-FAILURE {PID}: {e}', file=sys.stderr)
        sys.exit(2)
    except Exception as e:  # unexpected harness error: machinery failure, never a verdict
        import traceback
        traceback.print_exc()
        print(f'MACHINERY-FAILURE {PID}: unexpected {type(e).__name__}: {e}', file=sys.stderr)
        sys.exit(2)
