"""C18 - feature summary = per-feature median of label scores, sorted, normalised."""
from __future__ import annotations

import json
import math
import os
import random
import sys

sys.path.insert(0, os.path.dirname(os.path.dirname(os.path.abspath(__file__))))
from harness import engine as E
from harness import pipe_common as PC

PID = 'C18'
SC = 65536


def base(name):
    return name.split('-')[0]


def gen_item(rng):
    nfeat = rng.choice([1, 2, 3, 5, 8, 15])
    label = rng.choice(['label', 'target', 'y'])
    order = rng.choice([1, 1, 2, 3])
    pool = ['f1', 'feat2', 'BRAND', 'ANDREW', 'x', 'é', 'q9', 'w_w', 'CANDY', 'z z', 'LAND', 'k']
    # names that contain the label's name as prefix / suffix / infix are ordinary features
    pool = pool + [label + '_count', label + 'er', 'x' + label, 'my' + label + 'z', label.upper(), label + ' 2']
    names = rng.sample(pool, min(nfeat, len(pool)))
    if rng.random() < 0.5:
        extra_n = rng.choice([label + '_count', label + 'er', 'x' + label])
        if extra_n not in names:
            names.append(extra_n)
    if order > 1:
        singles = list(names)
        names = []
        for _ in range(nfeat):
            names.append(' AND '.join(rng.sample(singles, min(order, len(singles)))) if rng.random() < 0.7 and len(singles) >= 2 else rng.choice(singles))
        names = list(dict.fromkeys(names))
    annotate = rng.random() < 0.5
    ann = {n: (f'{n}-({rng.randrange(1, 99)}; {rng.randrange(0, 101)})' if annotate else n) for n in names + [label]}
    heuristic = rng.choice(['MI-numba-randomized', 'MI', 'surrogate-SGD', 'max-value-coverage', 'AMI', 'MI-numba-3mr', 'correlation-Pearson', 'correlation-Pearson', 'Constant'])
    vals = rng.choice([list(range(-6, 7)), [0, 1, 2, 3], [5], list(range(-400, 401, 7))])
    if 'MI' in heuristic and rng.random() < 0.25:
        vals = [250000, 250001, 250002, 250004]          # distinct medians that are relatively close (the normalisation only uses their differences)
    table = []
    for n in names:
        for _ in range(rng.choice([1, 1, 2, 3, 4])):
            s = rng.choice(vals)
            if rng.random() < 0.5:
                table.append([ann[n], ann[label], s])
            else:
                table.append([ann[label], ann[n], s])
            if rng.random() < 0.4:                      # both orientations of one batch result
                table.append([table[-1][1], table[-1][0], s])
    if rng.random() < 0.7:
        table.append([ann[label], ann[label], rng.choice(vals)])
    for _ in range(rng.randrange(0, 6)):                # pairs without the label: must be ignored
        if len(names) >= 2:
            a, b = rng.sample(names, 2)
            table.append([ann[a], ann[b], rng.choice(vals)])
    rng.shuffle(table)
    return {'label': label, 'heuristic': heuristic, 'order': order, 'table': table, 'tldr': rng.choice(['True', 'True', 'False', False])}


def record(it, ob):
    parts = {}
    for row in it['table']:
        for nm in row[:2]:
            b = base(nm)
            if ' AND ' in b:
                parts[b] = b.split(' AND ')
    sc = lambda v: int(round(v * SC))
    return {'label': it['label'], 'mi': 'MI' in it['heuristic'], 'order': it['order'],
            'table': [[base(a), base(b), int(s)] for a, b, s in it['table']], 'parts': parts if parts else {'__none__': []},
            'singles': [[base(f), sc(v)] for f, v in ob['singles']], 'agg': [[c, sc(v)] for c, v in (ob['agg'] or [])]}


def main():
    tier, seed, replay = E.tier_seed()
    V = E.Verdict(PID, tier, seed)
    rng = random.Random(seed * 314606869 + 18)
    V.coverage['rule'] = ('TLC: Summary.tla enumerates every table of <= 3 rows over {label, f1, BRAND, "f1 AND BRAND"} x scores {0,1,3} with the specified doubled medians; each (quick: 2500 sampled) is summarised by the real task and compared exactly; seeded pairwise_ranks.tsv tables (1..15 features, annotated "name-(card; cov)" or plain names, names containing the letters AND, duplicated orientations, '
                          'several rows per feature, label-label row, pairs without the label, negative scores, heuristics with and without "MI", interaction orders 1..3) are fed to the '
                          'real outrank_task_result_summary; feature_singles.tsv and feature_singles_aggregated.tsv form one trace record each, validated by TraceSummary.tla '
                          '(EachFeatureOnce, ScoreIsMedian, Descending, NormalisedBestOneWorstZero, OrderPreserved, AggregatedIsMedianOfInteractions).  '
                          'non-trivial = distinct tables with >= 2 features')
    V.assumptions += ['base feature names contain no "-" (the annotation separator); integer scores so that medians and the min-max normalisation are exact rationals',
                      'when all medians coincide the MI normalisation is undefined and the scores are not judged']
    # ---- binding A: every table of <= 3 rows over {label, f1, BRAND, "f1 AND BRAND"} (Summary.tla) through the real task
    wd0 = E.workdir('c18a')
    try:
        cfg0 = E.write_cfg(os.path.join(wd0, 'mc.cfg'), constants={'NF': 2, 'ScoreVals': '{0,1,3}', 'MaxTableRows': 3}, invariants=['LabelRowsOnly', 'MedianWithinRange', 'Emit'])
        res0 = E.run_tlc('Summary', cfg0, timeout=900)
        E.require_ok(res0, 'Summary')
        V.add_tlc(res0, 'Summary')
        V.tlc_violation(res0, 'Summary')
        small = [(list(map(list, t[1])), dict(t[2]) if not isinstance(t[2], tuple) else {i + 1: v for i, v in enumerate(t[2])}) for t in E.extract_tuples(res0.stdout, 'CASE')]
    finally:
        E.cleanup(wd0)
    if not small:
        raise E.MachineryError('Summary.tla emitted no tables')
    if tier == 'quick':
        small = rng.sample(small, 2500)
    sitems = []
    for rows_, exp in small:
        lab = rng.choice(['label', 'y'])
        nm = {0: lab, 1: 'f1', 2: 'BRAND', 3: 'f1 AND BRAND'}
        ann = rng.random() < 0.4
        a_ = {k_: (f'{v}-({3 + k_}; {90 - k_})' if ann else v) for k_, v in nm.items()}
        sitems.append({'label': lab, 'heuristic': rng.choice(['MI-numba-randomized', 'surrogate-SGD', 'max-value-coverage', 'MI']), 'order': 2,
                       'table': [[a_[r_[0]], a_[r_[1]], r_[2]] for r_ in rows_], 'nm': nm})
    sgot = PC.pipe_eval([{'op': 'summary_run', 'items': sitems[i:i + 250]} for i in range(0, len(sitems), 250)], modules=['sketch_ops'])
    sflat = []
    for r in sgot:
        if not r or 'ok' not in r:
            raise E.MachineryError('summary_run failed: ' + PC.failure_text(r))
        sflat += r['ok']
    from fractions import Fraction
    for (rows_, exp), it, ob in zip(small, sitems, sflat):
        key = f'small-table:{it["table"]} label={it["label"]} heuristic={it["heuristic"]}'
        if 'error' in ob:
            if exp:
                V.violation('raises:' + key, ob['error'], it)
            continue
        got_s = [(base(f), v) for f, v in ob['singles']]
        want = {it['nm'][f]: Fraction(m2, 2) for f, m2 in exp.items()}
        if sorted(f for f, _ in got_s) != sorted(want):
            V.violation('each-feature-once:' + key, f'features listed {[f for f, _ in got_s]}, scored against the label: {sorted(want)}', it)
            continue
        mi = 'MI' in it['heuristic']
        lo, hi = (min(want.values()), max(want.values())) if want else (0, 0)
        bad = False
        for f, v in got_s:
            e = want[f]
            if mi:
                if hi == lo:
                    continue
                e = (e - lo) / (hi - lo)
            if v != v or abs(v - float(e)) > 1e-9:
                V.violation('scores:' + key, f'{f}: written {v}, specified {"normalised " if mi else ""}median {float(e)}', it)
                bad = True
                break
        if bad:
            continue
        meds = [want[f] for f, _ in got_s]
        if any(meds[i] < meds[i + 1] for i in range(len(meds) - 1)):
            V.violation('order:' + key, f'rows not in descending score order: {got_s}', it)
        if 'f1 AND BRAND' in want:
            written = dict(got_s)['f1 AND BRAND']
            agg = {c: v for c, v in (ob['agg'] or [])}
            if set(agg) != {'f1', 'BRAND'} or any(abs(v - written) > 1e-9 for v in agg.values() if written == written):
                V.violation('aggregated:' + key, f'aggregated table {ob["agg"]}; the only interaction feature has score {written}', it)
        elif ob['agg']:
            V.violation('aggregated:' + key, f'aggregated table {ob["agg"]} although no interaction feature was scored against the label', it)
    V.count(evaluations=len(small), nontrivial=sum(1 for _, e in small if len(e) >= 2), traces=len(small))
    V.add_sample({'small_table': sitems[len(sitems) // 2]['table'], 'spec_doubled_medians': small[len(small) // 2][1], 'real_singles': sflat[len(small) // 2].get('singles')})

    n = 80 if tier == 'quick' else 1500
    items = [gen_item(rng) for _ in range(n)]
    got = PC.pipe_eval([{'op': 'summary_run', 'items': items[i:i + 40]} for i in range(0, n, 40)], modules=['sketch_ops'])
    flat = []
    for r in got:
        if not r or 'ok' not in r:
            raise E.MachineryError('summary_run failed: ' + PC.failure_text(r))
        flat += r['ok']
    wd = E.workdir('c18')
    try:
        recs, metas = [], []
        for k, (it, ob) in enumerate(zip(items, flat)):
            key = f'table#{k} seed={seed} label={it["label"]} heuristic={it["heuristic"]} order={it["order"]} rows={len(it["table"])}'
            if 'error' in ob:
                V.violation('raises:' + key, ob['error'], it)
                continue
            if any(isinstance(v, float) and math.isnan(v) for _, v in ob['singles']):
                # all medians equal under an MI heuristic: 0/0 - outside the statement ("best 1, worst 0" needs max > min)
                meds = {}
                continue_ok = True
            if 'MI' in it['heuristic'] and len({v for _, v in ob['singles'] if v == v}) > 1 and any(v == v and not (-1e-9 <= v <= 1 + 1e-9) for _, v in ob['singles']):       # (all written scores equal: all medians tie, normalisation undefined, not judged)
                # (judged here, before the trace: the exact arithmetic of TraceSummary is sized for normalised scores)
                V.violation('scores:' + key, f'heuristic {it["heuristic"]!r} is an MI-type name, but the written scores are not normalised to [0, 1]: {ob["singles"][:4]}', it)
                continue
            recs.append(record(it, {'singles': [[f, (0.0 if v != v else v)] for f, v in ob['singles']], 'agg': [[c, (0.0 if v != v else v)] for c, v in (ob['agg'] or [])]}))
            metas.append((key, it, ob))
        tf = os.path.join(wd, 's.ndjson')
        cfg = E.write_cfg(os.path.join(wd, 's.cfg'), spec='Spec', postcondition='Accepted')

        def validate(rs):
            with open(tf, 'w') as f:
                for r_ in rs:
                    f.write(json.dumps(r_) + '\n')
            res = E.run_tlc('TraceSummary', cfg, workers=1, env={'TRACE_FILE': tf}, timeout=900)
            E.require_ok(res, 'TraceSummary')
            return res
        res = validate(recs)
        V.add_tlc(res, 'TraceSummary')
        rest_r, rest_m = recs, metas
        guard = 0
        while not res.ok and guard < 10:
            guard += 1
            i = res.depth - 1
            if not (0 <= i < len(rest_r)):
                break
            key, it, ob = rest_m[i]
            rec = rest_r[i]
            # name the clause (harness mirror, for the message only)
            feats = {r_[1] for r_ in rec['table'] if r_[0] == rec['label']} | {r_[0] for r_ in rec['table'] if r_[0] != rec['label'] and r_[1] == rec['label']}
            got_f = [s[0] for s in rec['singles']]
            if sorted(got_f) != sorted(feats):
                clause = f'features listed {sorted(got_f)} != features scored against the label {sorted(feats)}'
                kind = 'each-feature-once'
            elif rec['order'] > 1 and sorted(a[0] for a in rec['agg']) != sorted({c for f in feats if f in rec['parts'] for c in rec['parts'][f]}):
                clause = f'aggregated table lists {sorted(a[0] for a in rec["agg"])}, constituents of interaction features are {sorted({c for f in feats if f in rec["parts"] for c in rec["parts"][f]})}'
                kind = 'aggregated-constituents'
            else:
                clause = 'a score is not the (normalised) median / order not descending / aggregated median wrong'
                kind = 'scores'
            V.violation(f'{kind}:{key}', f'TraceSummary rejects the outputs: {clause}; singles={ob["singles"][:6]} agg={ob["agg"]}', it)
            rest_r, rest_m = rest_r[i + 1:], rest_m[i + 1:]
            if not rest_r:
                break
            res = validate(rest_r)
        V.count(evaluations=len(recs), nontrivial=sum(1 for r_ in recs if len(r_['singles']) >= 2), traces=len(recs))
        V.add_sample({'table': items[0]['table'][:8], 'label': items[0]['label'], 'heuristic': items[0]['heuristic'], 'singles': flat[0].get('singles'), 'agg': flat[0].get('agg')})
        # negative control: perturb one written score
        ctl = next((r_ for r_ in recs if len(r_['singles']) >= 2 and not r_['mi']), None)
        if ctl:
            bad = dict(ctl, singles=[[ctl['singles'][0][0], ctl['singles'][0][1] + 3 * SC]] + ctl['singles'][1:])
            if validate([bad]).ok:
                raise E.MachineryError('negative control: perturbed score accepted')
            V.notes['negative_control'] = 'TraceSummary rejects a feature_singles table whose first score was raised by 3'
    finally:
        E.cleanup(wd)
    return V.finish()


if __name__ == '__main__':
    try:
        sys.exit(main())
    except E.MachineryError as e:
        print(f'MACHINERY-FAILURE {PID}: {e}', file=sys.stderr)
        sys.exit(2)
    except Exception as e:  # unexpected harness error: machinery failure, never a verdict
        import traceback
        traceback.print_exc()
        print(f'MACHINERY-FAILURE {PID}: unexpected {type(e).__name__}: {e}', file=sys.stderr)
        sys.exit(2)
