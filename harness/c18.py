"""C18 - feature summary = per-feature median of label scores, sorted, normalised."""
from __future__ import annotations

import json
import math
import os
import random
import sys

sys.path.insert(0, os.path.dirname(os.path.dirname(os.path.abspath(__file__))))
from harness import engine as E
from harness import pipe_common as PC

PID = 'C18'
SC = 65536


def base(name):
    return name.split('-')[0]


def gen_item(rng):
    nfeat = rng.choice([1, 2, 3, 5, 8, 15])
    label = rng.choice(['label', 'target', 'y'])
    order = rng.choice([1, 1, 2, 3])
    pool = ['f1', 'feat2', 'BRAND', 'ANDREW', 'x', 'é', 'q9', 'w_w', 'CANDY', 'z z', 'LAND', 'k']
    # names that contain the label's name as prefix / suffix / infix are ordinary features
    pool = pool + [label + '_count', label + 'er', 'x' + label, 'my' + label + 'z', label.upper(), label + ' 2']
    names = rng.sample(pool, min(nfeat, len(pool)))
    if rng.random() < 0.5:
        extra_n = rng.choice([label + '_count', label + 'er', 'x' + label])
        if extra_n not in names:
            names.append(extra_n)
    if order > 1:
        singles = list(names)
        names = []
        for _ in range(nfeat):
            names.append(' AND '.join(rng.sample(singles, min(order, len(singles)))) if rng.random() < 0.7 and len(singles) >= 2 else rng.choice(singles))
        names = list(dict.fromkeys(names))
    annotate = rng.random() < 0.5
    ann = {n: (f'{n}-({rng.randrange(1, 99)}; {rng.randrange(0, 101)})' if annotate else n) for n in names + [label]}
    vals = rng.choice([list(range(-6, 7)), [0, 1, 2, 3], [5], list(range(-400, 401, 7))])
    table = []
    for n in names:
        for _ in range(rng.choice([1, 1, 2, 3, 4])):
            s = rng.choice(vals)
            if rng.random() < 0.5:
                table.append([ann[n], ann[label], s])
            else:
                table.append([ann[label], ann[n], s])
            if rng.random() < 0.4:                      # both orientations of one batch result
                table.append([table[-1][1], table[-1][0], s])
    if rng.random() < 0.7:
        table.append([ann[label], ann[label], rng.choice(vals)])
    for _ in range(rng.randrange(0, 6)):                # pairs without the label: must be ignored
        if len(names) >= 2:
            a, b = rng.sample(names, 2)
            table.append([ann[a], ann[b], rng.choice(vals)])
    rng.shuffle(table)
    heuristic = rng.choice(['MI-numba-randomized', 'MI', 'surrogate-SGD', 'max-value-coverage', 'AMI', 'MI-numba-3mr'])
    return {'label': label, 'heuristic': heuristic, 'order': order, 'table': table}


def record(it, ob):
    parts = {}
    for row in it['table']:
        for nm in row[:2]:
            b = base(nm)
            if ' AND ' in b:
                parts[b] = b.split(' AND ')
    sc = lambda v: int(round(v * SC))
    return {'label': it['label'], 'mi': 'MI' in it['heuristic'], 'order': it['order'],
            'table': [[base(a), base(b), int(s)] for a, b, s in it['table']], 'parts': parts if parts else {'__none__': []},
            'singles': [[base(f), sc(v)] for f, v in ob['singles']], 'agg': [[c, sc(v)] for c, v in (ob['agg'] or [])]}


def main():
    tier, seed, replay = E.tier_seed()
    V = E.Verdict(PID, tier, seed)
    rng = random.Random(seed * 314606869 + 18)
    V.coverage['rule'] = ('seeded pairwise_ranks.tsv tables (1..15 features, annotated "name-(card; cov)" or plain names, names containing the letters AND, duplicated orientations, '
                          'several rows per feature, label-label row, pairs without the label, negative scores, heuristics with and without "MI", interaction orders 1..3) are fed to the '
                          'real outrank_task_result_summary; feature_singles.tsv and feature_singles_aggregated.tsv form one trace record each, validated by TraceSummary.tla '
                          '(EachFeatureOnce, ScoreIsMedian, Descending, NormalisedBestOneWorstZero, OrderPreserved, AggregatedIsMedianOfInteractions).  '
                          'non-trivial = distinct tables with >= 2 features')
    V.assumptions += ['base feature names contain no "-" (the annotation separator); integer scores so that medians and the min-max normalisation are exact rationals',
                      'when all medians coincide the MI normalisation is undefined and the scores are not judged']
    n = 80 if tier == 'quick' else 1500
    items = [gen_item(rng) for _ in range(n)]
    got = PC.pipe_eval([{'op': 'summary_run', 'items': items[i:i + 40]} for i in range(0, n, 40)], modules=['sketch_ops'])
    flat = []
    for r in got:
        if not r or 'ok' not in r:
            raise E.MachineryError('summary_run failed: ' + PC.failure_text(r))
        flat += r['ok']
    wd = E.workdir('c18')
    try:
        recs, metas = [], []
        for k, (it, ob) in enumerate(zip(items, flat)):
            key = f'table#{k} seed={seed} label={it["label"]} heuristic={it["heuristic"]} order={it["order"]} rows={len(it["table"])}'
            if 'error' in ob:
                V.violation('raises:' + key, ob['error'], it)
                continue
            if any(isinstance(v, float) and math.isnan(v) for _, v in ob['singles']):
                # all medians equal under an MI heuristic: 0/0 - outside the statement ("best 1, worst 0" needs max > min)
                meds = {}
                continue_ok = True
            recs.append(record(it, {'singles': [[f, (0.0 if v != v else v)] for f, v in ob['singles']], 'agg': [[c, (0.0 if v != v else v)] for c, v in (ob['agg'] or [])]}))
            metas.append((key, it, ob))
        tf = os.path.join(wd, 's.ndjson')
        cfg = E.write_cfg(os.path.join(wd, 's.cfg'), spec='Spec', postcondition='Accepted')

        def validate(rs):
            with open(tf, 'w') as f:
                for r_ in rs:
                    f.write(json.dumps(r_) + '\n')
            res = E.run_tlc('TraceSummary', cfg, workers=1, env={'TRACE_FILE': tf}, timeout=900)
            E.require_ok(res, 'TraceSummary')
            return res
        res = validate(recs)
        V.add_tlc(res, 'TraceSummary')
        rest_r, rest_m = recs, metas
        guard = 0
        while not res.ok and guard < 10:
            guard += 1
            i = res.depth - 1
            if not (0 <= i < len(rest_r)):
                break
            key, it, ob = rest_m[i]
            rec = rest_r[i]
            # name the clause (harness mirror, for the message only)
            feats = {r_[1] for r_ in rec['table'] if r_[0] == rec['label']} | {r_[0] for r_ in rec['table'] if r_[0] != rec['label'] and r_[1] == rec['label']}
            got_f = [s[0] for s in rec['singles']]
            if sorted(got_f) != sorted(feats):
                clause = f'features listed {sorted(got_f)} != features scored against the label {sorted(feats)}'
                kind = 'each-feature-once'
            elif rec['order'] > 1 and sorted(a[0] for a in rec['agg']) != sorted({c for f in feats if f in rec['parts'] for c in rec['parts'][f]}):
                clause = f'aggregated table lists {sorted(a[0] for a in rec["agg"])}, constituents of interaction features are {sorted({c for f in feats if f in rec["parts"] for c in rec["parts"][f]})}'
                kind = 'aggregated-constituents'
            else:
                clause = 'a score is not the (normalised) median / order not descending / aggregated median wrong'
                kind = 'scores'
            V.violation(f'{kind}:{key}', f'TraceSummary rejects the outputs: {clause}; singles={ob["singles"][:6]} agg={ob["agg"]}', it)
            rest_r, rest_m = rest_r[i + 1:], rest_m[i + 1:]
            if not rest_r:
                break
            res = validate(rest_r)
        V.count(evaluations=len(recs), nontrivial=sum(1 for r_ in recs if len(r_['singles']) >= 2), traces=len(recs))
        V.add_sample({'table': items[0]['table'][:8], 'label': items[0]['label'], 'heuristic': items[0]['heuristic'], 'singles': flat[0].get('singles'), 'agg': flat[0].get('agg')})
        # negative control: perturb one written score
        ctl = next((r_ for r_ in recs if len(r_['singles']) >= 2 and not r_['mi']), None)
        if ctl:
            bad = dict(ctl, singles=[[ctl['singles'][0][0], ctl['singles'][0][1] + 3 * SC]] + ctl['singles'][1:])
            if validate([bad]).ok:
                raise E.MachineryError('negative control: perturbed score accepted')
            V.notes['negative_control'] = 'TraceSummary rejects a feature_singles table whose first score was raised by 3'
    finally:
        E.cleanup(wd)
    return V.finish()


if __name__ == '__main__':
    try:
        sys.exit(main())
    except E.MachineryError as e:
        print(f'MACHINERY-FAILURE {PID}: {e}', file=sys.stderr)
        sys.exit(2)
