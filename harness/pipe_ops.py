"""More operations for pipe_child (loaded with modules=['pipe_ops']): sampler replay and the
recorded streaming run of the real estimate_importances_minibatches / CLI."""
from __future__ import annotations

import json
import logging
import os
import sys
import tempfile

import numpy as np
import pandas as pd

import outrank.core_ranking as CR
from harness import pipe_lib as L


def _key(k):
    return tuple(k) if isinstance(k, list) else k


def op_sampler_replay(job):
    """Each behaviour = list of [candidate list, cap]; a fresh counter per behaviour."""
    out = []
    for beh in job['behaviours']:
        L.reset_globals()
        steps = []
        for lst, cap in beh:
            args = L.make_args(combination_number_upper_bound=cap)
            ret = CR.prior_combinations_sample([_key(k) for k in lst], args)
            steps.append({'ret': [list(k) if isinstance(k, tuple) else k for k in ret],
                          'counts': sorted([[list(k) if isinstance(k, tuple) else k, v] for k, v in CR.GLOBAL_PRIOR_COMB_COUNTS.items()], key=repr)})
        out.append(steps)
    return out


# --------------------------------------------------------------------------- recorded streaming run

class Recorder:
    def __init__(self, opts):
        self.ev = []
        self.opts = opts
        self.batch_no = 0
        self.depth = 0

    def log(self, **kw):
        self.ev.append(kw)


def _scaled(x):
    try:
        x = float(x)
    except Exception:
        return None
    if x != x or x in (float('inf'), float('-inf')):
        return None
    return int(round(x * 2 ** 20))


def install(rec: Recorder):
    """Wrap the module-level names the loop looks up at call time.  Add-only: every wrapper
    delegates to the original and logs in `finally`."""
    opts = rec.opts
    orig_parser = CR.generic_line_parser
    orig_batch = CR.compute_batch_ranking
    orig_ckpt = CR.checkpoint_importances_df
    orig_sample = CR.prior_combinations_sample
    idcol = opts.get('id_col', 0)

    def parser(line, *a, **k):
        res = None
        try:
            res = orig_parser(line, *a, **k)
            return res
        finally:
            if opts.get('log_parse', True):
                rec.log(e='parse', nf=(len(res) if res is not None else -1), id=(res[idcol] if res and len(res) > idcol else None))

    def batch(line_tmp_storage, *a, **k):
        rec.batch_no += 1
        no = rec.batch_no
        ids = [r[idcol] for r in line_tmp_storage]
        res = None
        try:
            res = orig_batch(line_tmp_storage, *a, **k)
            return res
        finally:
            trip = None
            if res is not None:
                trip = [[t[0], t[1], _scaled(t[2]), (float(t[2]) if opts.get('raw_scores') else None)] for t in res[0].triplet_scores]
            ev = dict(e='batch', k=no, n=len(ids), ids=(ids if opts.get('log_ids', True) else None), trip=trip)
            if opts.get('log_coverage') and res is not None:
                ev['coverage'] = {c: float(v) for c, v in res[2].items()}
            if opts.get('log_quality'):
                ev['quality'] = quality_snapshot()
            rec.log(**ev)

    def ckpt(importances, *a, **k):
        try:
            return orig_ckpt(importances, *a, **k)
        finally:
            table = None
            if os.path.exists('ranking_checkpoint_tmp.tsv'):
                df = pd.read_csv('ranking_checkpoint_tmp.tsv', sep='\t', keep_default_na=False)
                table = [[r.FeatureA, r.FeatureB, _scaled(r.Score)] for r in df.itertuples()]
            rec.log(e='checkpoint', k=rec.batch_no, ntrip=len(importances), table=table)

    def sample(combinations, args):
        caller = sys._getframe(1).f_code.co_name
        res = None
        try:
            res = orig_sample(combinations, args)
            return res
        finally:
            if opts.get('log_sampler', True):
                rec.log(e='call', client=caller, list=[repr(c) for c in combinations], cap=int(args.combination_number_upper_bound),
                        ret=[repr(c) for c in (res or [])], counts={repr(k): int(v) for k, v in CR.GLOBAL_PRIOR_COMB_COUNTS.items()})

    CR.generic_line_parser = parser
    CR.compute_batch_ranking = batch
    CR.checkpoint_importances_df = ckpt
    CR.prior_combinations_sample = sample

    def undo():
        CR.generic_line_parser = orig_parser
        CR.compute_batch_ranking = orig_batch
        CR.checkpoint_importances_df = orig_ckpt
        CR.prior_combinations_sample = orig_sample
    return undo


def quality_snapshot():
    """Projection of the process-global data-quality state."""
    card = {c: len(h) for c, h in CR.GLOBAL_CARDINALITY_STORAGE.items()}
    hist = {c: {str(k): int(v) for k, v in cnt.default_counter.items()} for c, cnt in CR.GLOBAL_COUNTS_STORAGE.items()}
    rare = {repr(k): int(v) for k, v in CR.GLOBAL_RARE_VALUE_STORAGE.items()}
    return {'card': card, 'hist': hist, 'rare': rare, 'ignored': sorted(repr(k) for k in CR.IGNORED_VALUES)}


class CaptureLogger:
    def __init__(self, rec):
        self.rec = rec

    def info(self, msg, *a, **k):
        msg = str(msg)
        if msg.startswith('Detected '):
            try:
                self.rec.log(e='invalid', n=int(msg.split()[1]))
            except Exception:
                self.rec.log(e='invalid', n=-1)

    warning = error = debug = info


def write_dataset(folder, lines, name='data.csv'):
    os.makedirs(folder, exist_ok=True)
    with open(os.path.join(folder, name), 'w', encoding='utf-8', newline='') as f:
        for ln in lines:
            f.write(ln)


def op_run_stream(job):
    """Run the real estimate_importances_minibatches on a generated file with a ScheduledPool
    and the recorder installed.  job: lines (with terminators, header first), columns, args,
    pool {nodes, completion}, opts (recorder options), delimiter, data_source."""
    wd = tempfile.mkdtemp(prefix='stream.', dir=job.get('workdir') or None)
    cwd = os.getcwd()
    os.chdir(wd)
    try:
        L.reset_globals()
        fname = os.path.join(wd, job.get('file_name', 'data.csv'))
        if job.get('gzip'):
            import gzip
            with gzip.open(fname, 'wt', encoding='utf-8', newline='') as f:
                f.writelines(job['lines'])
        else:
            with open(fname, 'w', encoding='utf-8', newline='') as f:
                f.writelines(job['lines'])
        args = L.make_args(**job.get('args', {}))
        columns = job['columns']
        if job.get('columns_from_header'):
            # the column list as the tool itself derives it from the file's header line (csv-raw)
            from outrank.core_utils import parse_csv_raw
            columns = list(parse_csv_raw(wd).column_names)
        rec = Recorder(job.get('opts', {}))
        undo = install(rec)
        pool = L.ScheduledPool(**job.get('pool', {}), log=(rec.ev if job.get('opts', {}).get('log_pool') else []))
        try:
            res = CR.estimate_importances_minibatches(
                input_file=fname, column_descriptions=columns, fw_col_mapping=job.get('fw_map'),
                numeric_column_types=set(job.get('numeric', [])), args=args, data_encoding='utf-8', cpu_pool=pool,
                delimiter=job.get('delimiter', ','), logger=CaptureLogger(rec))
        finally:
            undo()
        grouped = res[1]
        final = None
        if grouped is not None:
            final = [[r.FeatureA, r.FeatureB, _scaled(r.Score), float(r.Score)] for r in grouped.itertuples()]
        out = {'events': rec.ev, 'final': final, 'columns_used': [str(c) for c in columns],
               'card': {c: len(h) for c, h in res[2].items()},
               'coverage': {c: [float(x) for x in v] for c, v in res[5].items()},
               'rare': {repr(k): int(v) for k, v in res[6].items()},
               'comb_counts': {repr(k): int(v) for k, v in res[7].items()},
               'hist': {c: {str(k): int(v) for k, v in cnt.default_counter.items()} for c, cnt in res[8].items()},
               'checkpoint_exists': os.path.exists('ranking_checkpoint_tmp.tsv')}
        return out
    finally:
        os.chdir(cwd)
        import shutil
        shutil.rmtree(wd, ignore_errors=True)


OPS = {k[3:]: v for k, v in list(globals().items()) if k.startswith('op_')}


def op_rank_graph(job):
    """Real get_combinations_from_columns + mixed_rank_graph on a frame, `batches` times with
    the sampler counter persisting; ScheduledPool with an optional completion order."""
    L.reset_globals()
    out = []
    cols = job['columns']
    for b in range(job.get('batches', 1)):
        over = {'label_column': job['label_seq'][b]} if job.get('label_seq') else {}      # successive rankings of one frame against different targets (one process)
        args = L.make_args(**dict(job.get('args', {}), **over))
        df = pd.DataFrame({c: job['frame'][c] for c in cols}, columns=cols)
        combos = CR.get_combinations_from_columns(df.columns, args)
        args = L.make_args(**dict(job.get('args', {}), **over))          # get_combinations may clamp the cap in place
        log = []
        pool = L.ScheduledPool(nodes=job.get('nodes', 1), completion=job.get('completion'), log=log)
        if job.get('pool_kind') == 'real':
            from pathos.multiprocessing import ProcessingPool
            import time as _t
            CR.time = type('T', (), {'sleep': staticmethod(lambda s: _t.sleep(0.01))})
            pool = ProcessingPool(job.get('nodes', 1))
        inject = job.get('perm_tasks')
        if inject is not None:
            target = [tuple(t) for t in inject]

            class _Rnd:
                @staticmethod
                def shuffle(lst):
                    if sorted(lst) == sorted(target):
                        lst[:] = target
            saved_random = CR.random
            CR.random = _Rnd()
        try:
            res = CR.mixed_rank_graph(df, args, pool, L.Pbar())
        finally:
            if inject is not None:
                CR.random = saved_random
        lib = None
        if job.get('libscores'):
            from scipy.stats import pearsonr
            from sklearn.metrics import adjusted_mutual_info_score
            import warnings
            lib = {}
            rank = {c: {v: i for i, v in enumerate(sorted(set(job['frame'][c])))} for c in cols}
            code = {c: np.array([rank[c][v] for v in job['frame'][c]]) for c in cols}
            with warnings.catch_warnings():
                warnings.simplefilter('ignore')
                for a in cols:
                    for b_ in cols:
                        lib[a + '\x00' + b_] = [float(pearsonr(code[a], code[b_])[0]), float(adjusted_mutual_info_score(code[a], code[b_]))]
        out.append({'lib': lib, 'combos': [list(c) for c in combos],
                    'trip': [[t[0], t[1], float(t[2])] for t in res.triplet_scores],
                    'cap_after': int(args.combination_number_upper_bound)})
    return out


OPS = {k[3:]: v for k, v in list(globals().items()) if k.startswith('op_')}


def _snapshot_for_trace(cols):
    q = quality_snapshot()
    rare = []
    for k, v in CR.GLOBAL_RARE_VALUE_STORAGE.items():
        rare.append([k[0], k[1], int(v)])
    return {'card': {c: q['card'].get(c, 0) for c in cols}, 'hist': {c: q['hist'].get(c, {}) for c in cols}, 'rare': rare}


def op_quality_replay(job):
    """Each history = list of batches (lists of rows); fresh globals per history; the real
    compute_coverage / compute_cardinalities / compute_value_counts per batch."""
    cols = job['columns']
    args = L.make_args(**job.get('args', {}))
    out = []
    for hist in job['histories']:
        L.reset_globals()
        cov = {c: [] for c in cols}
        for rows in hist:
            df = pd.DataFrame(rows, columns=cols)
            cs = CR.compute_coverage(df, args)
            for c in cols:
                cov[c].append(float(cs[c]))
            CR.compute_cardinalities(df, L.Pbar(), args.max_unique_hist_constraint)
            if args.task == 'identify_rare_values':
                CR.compute_value_counts(df, args)
        snap = _snapshot_for_trace(cols)
        snap['cov'] = cov
        out.append(snap)
    return out


def op_quality_stream(job):
    """run_stream variant that records, after every batch, the rows of the batch and the
    data-quality snapshot (for TraceQuality)."""
    import tempfile
    wd = tempfile.mkdtemp(prefix='q.')
    cwd = os.getcwd()
    os.chdir(wd)
    try:
        L.reset_globals()
        fname = os.path.join(wd, 'data.csv')
        with open(fname, 'w', encoding='utf-8', newline='') as f:
            f.writelines(job['lines'])
        args = L.make_args(**job.get('args', {}))
        events = []
        orig = CR.compute_batch_ranking

        def batch(line_tmp_storage, *a, **k):
            rows = [list(r) for r in line_tmp_storage]
            res = orig(line_tmp_storage, *a, **k)
            snap = _snapshot_for_trace(job['columns'])
            snap.update(e='batch', cols=job['columns'], rows=rows, cov={c: int(round(float(res[2][c]) * 1024)) for c in job['columns']})
            events.append(snap)
            return res
        CR.compute_batch_ranking = batch
        try:
            res = CR.estimate_importances_minibatches(
                input_file=fname, column_descriptions=job['columns'], fw_col_mapping=None, numeric_column_types=set(), args=args,
                data_encoding='utf-8', cpu_pool=L.ScheduledPool(), delimiter=',', logger=CaptureLogger(Recorder({})))
        finally:
            CR.compute_batch_ranking = orig
        return {'events': events, 'card': {c: len(h) for c, h in res[2].items()}, 'coverage': {c: [float(x) for x in v] for c, v in res[5].items()},
                'rare': [[k[0], k[1], int(v)] for k, v in res[6].items()],
                'hist': {c: {str(k): int(v) for k, v in cnt.default_counter.items()} for c, cnt in res[8].items()}}
    finally:
        os.chdir(cwd)
        import shutil
        shutil.rmtree(wd, ignore_errors=True)


OPS = {k[3:]: v for k, v in list(globals().items()) if k.startswith('op_')}


def op_batch_features(job):
    """compute_batch_ranking on rows with the scoring stage replaced by a capture of the
    constructed frame (mixed_rank_graph is looked up at call time)."""
    from outrank.core_utils import BatchRankingSummary
    out = []
    orig = CR.mixed_rank_graph
    captured = {}

    def capture(df, args, pool, pbar):
        captured['df'] = df
        return BatchRankingSummary([], {})
    CR.mixed_rank_graph = capture
    try:
        for item in job['items']:
            if not item.get('keep_state'):
                L.reset_globals()          # keep_state: the next mini-batch of the same run, in the same process
            args = L.make_args(**item['args'])
            captured.clear()
            rows = [list(r) for r in item['rows']]
            before = [list(r) for r in rows]
            try:
                CR.compute_batch_ranking(rows, set(item.get('numeric', [])), args, L.ScheduledPool(), item['columns'], CaptureLogger(Recorder({})), L.Pbar())
            except Exception as e:  # noqa: BLE001
                out.append({'error': repr(e)[:300]})
                continue
            df = captured.get('df')
            if df is None:
                out.append({'error': 'frame not captured'})
                continue
            cols = [str(c) for c in df.columns]
            vals = {}
            for c in df.columns:
                col = df[c]
                if getattr(col, 'ndim', 1) != 1:
                    vals[str(c)] = 'DUPLICATE-COLUMN'
                else:
                    vals[str(c)] = [v if isinstance(v, str) else (None if v is None else str(v)) for v in col.tolist()]
            out.append({'columns': cols, 'values': vals, 'nrows': int(df.shape[0]), 'input_untouched': rows == before,
                        'index_ok': list(df.index) == list(range(len(rows)))})
    finally:
        CR.mixed_rank_graph = orig
    return out


OPS = {k[3:]: v for k, v in list(globals().items()) if k.startswith('op_')}
