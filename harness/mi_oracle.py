"""Python transcription of the definition-level operators of spec/MIEstimator.tla.

A value is a "log combination": dict {count c -> integer coefficient k} standing for
sum_c k * log(c), i.e. for n * score / ratio, exactly like the spec's prime vectors.  The
transcription is cross-checked against TLC on every enumerated state (primevec(...) must equal
the vector TLC printed) and, for larger n, by spec/MITrace.tla; it is then used as the spec's
operator "executed by another engine" for vectors too long for TLC.
"""
from __future__ import annotations

import math
from collections import Counter


def _add(a, b, s=1):
    for k, v in b.items():
        nv = a.get(k, 0) + s * v
        if nv:
            a[k] = nv
        else:
            a.pop(k, None)
    return a


def term_d(g, P, d):
    """sum over values a of g on positions P of cnt_a*(log cnt_a - log d)  (spec: TermD)."""
    out = {}
    cnt = Counter(g[i] for i in P)
    for a, k in cnt.items():
        _add(out, {k: k})
        _add(out, {d: -k})
    out.pop(1, None)
    return out


def n_ent(g):
    n = len(g)
    t = term_d(g, range(n), n)
    return {k: -v for k, v in t.items()}


def n_cond_ent(g, h):
    out = {}
    groups = {}
    for i, b in enumerate(h):
        groups.setdefault(b, []).append(i)
    for b, P in groups.items():
        _add(out, term_d(g, P, len(P)), -1)
    return out


def n_plugin(g, h):
    """n * I(g;h): sum n_ab log n_ab - sum n_a log n_a - sum n_b log n_b + n log n."""
    n = len(g)
    out = {}
    for k in Counter(zip(g, h)).values():
        _add(out, {k: k})
    for k in Counter(g).values():
        _add(out, {k: -k})
    for k in Counter(h).values():
        _add(out, {k: -k})
    _add(out, {n: n})
    out.pop(1, None)
    return out


def displaced(g, h):
    n = len(g)
    cnt = Counter(h)
    return [g[(i + cnt[h[i]]) % n] for i in range(n)]


def n_corrected(g, h):
    out = n_cond_ent(displaced(g, h), h)
    _add(out, n_cond_ent(g, h), -1)
    return out


def spec_score(g, h, cc):
    if cc and list(g) != list(h):
        return n_corrected(g, h)
    return n_plugin(g, h)


def spec_sample(h, num, den):
    """0-based row indices of the specified sample (spec: SpecSample)."""
    n = len(h)
    if num >= den:
        return list(range(n))
    final = (num * n) // den
    vals = sorted(set(h))
    q = final // len(vals)
    if q == 0:
        return list(range(n))
    out = []
    for b in vals:
        rows = [i for i in range(n) if h[i] == b][:q]
        out += rows
    return out


def spec_sample_final(h, final):
    """As spec_sample but with floor(r*n) given (non-dyadic ratios: computed by the driver with
    float32 arithmetic exactly as numba does)."""
    n = len(h)
    vals = sorted(set(h))
    q = final // len(vals)
    if q == 0:
        return list(range(n))
    out = []
    for b in vals:
        out += [i for i in range(n) if h[i] == b][:q]
    return out


def sample_score(g, h, cc, s):
    """What the code computes on sample s (spec: SampleScore) - n * score / ratio."""
    n = len(h)
    gs = [g[i] for i in s]
    hs = [h[i] for i in s]
    m = len(s)
    cnt = Counter(h)
    pos = {}
    for j, b in enumerate(hs):
        pos.setdefault(b, []).append(j)
    corrected = cc and gs != hs
    out = {}
    if not corrected:
        _add(out, term_d(gs, range(m), n), -1)
    for b, nb in cnt.items():
        if nb == 1:
            continue
        P = pos.get(b, [])
        _add(out, term_d(gs, P, nb))
        if corrected:
            spoof = {j: gs[(j + nb) % m] for j in P}
            _add(out, term_d(spoof, P, nb), -1)
    return out


def value(comb, n, ratio=1.0):
    """float value of the score: ratio * (1/n) * sum k log c (math.fsum: exact summation)."""
    return ratio * math.fsum(k * math.log(c) for c, k in comb.items()) / n


_PR = {}


def primes_upto(n):
    if n not in _PR:
        _PR[n] = [p for p in range(2, n + 1) if all(p % d for d in range(2, int(p ** 0.5) + 1))]
    return _PR[n]


def primevec(comb, n):
    """Coefficient vector over the primes <= n, as the spec's LogV arithmetic produces it."""
    vec = {p: 0 for p in primes_upto(n)}
    for c, k in comb.items():
        m = c
        for p in vec:
            while m % p == 0:
                vec[p] += k
                m //= p
        assert m == 1, (c, n)
    return vec


def vec_value(vec, n, ratio=1.0):
    return ratio * math.fsum(k * math.log(int(p)) for p, k in vec.items()) / n


def entropy(g):
    return value(n_ent(g), len(g))
