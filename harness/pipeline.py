"""Beyond the listed properties: the CLI's task orchestration (Pipeline.tla) bound to real CLI
runs.  Usage: ./check pipeline [--tier quick|thorough].  Not a MANIFEST check (no listed property);
exit 0 = every recorded task sequence is a behaviour of Pipeline.tla."""
from __future__ import annotations

import json
import os
import random
import shutil
import sys

sys.path.insert(0, os.path.dirname(os.path.dirname(os.path.abspath(__file__))))
from harness import engine as E
from harness import pipe_common as PC

KNOWN = {"pairwise_ranks.tsv", "memory.tsv", "value_repetitions.json", "combination_estimation_counts.json", "timings.json", "arguments.json", "3mr_ranks.tsv",
         "numeric_feature_statistics.tsv", "feature_singles.tsv", "feature_singles_transformers_only_imp.tsv", "feature_singles_aggregated.tsv", "rare_values.tsv",
         "feature_sparsity_summary.tsv", "heatmap.pdf", "dendrogram_complete.pdf", "SilhouetteProfile.pdf", "TopClustering.tsv",
         "barplot_top_3.pdf", "barplot_top_10.pdf", "barplot_top_25.pdf", "barplot_top_50.pdf", "barplot_top_100.pdf"}


def artefacts(folder):
    """Known artefacts present in the folder, plus one name distPlot_<c> per plot family of the instance-ranking task."""
    import re
    out = set()
    for f in (os.listdir(folder) if os.path.isdir(folder) else []):
        if f in KNOWN:
            out.add(f)
        m = re.match(r'^distPlot.*_(.)\.pdf$', f)
        if m:
            out.add('distPlot_' + m.group(1))
    return sorted(out)


def make_ds(folder, rng, nrows, numeric):
    os.makedirs(folder, exist_ok=True)
    if numeric:
        # ob-csv layout: data.csv + dataset_desc.json declaring a float column
        with open(os.path.join(folder, 'dataset_desc.json'), 'w') as f:
            json.dump({'data_features': [{'name': 'a', 'type': 'string'}, {'name': 'num', 'type': 'float'}, {'name': 'b', 'type': 'string'}, {'name': 'label', 'type': 'string'}]}, f)
    with open(os.path.join(folder, 'data.csv'), 'w') as f:
        f.write('a,num,b,label\n')
        for i in range(nrows):
            t = rng.randrange(2)
            f.write(f'{t ^ (rng.random() < 0.2)},{rng.randrange(1, 50)},{rng.randrange(4)},{t}\n')


def main():
    tier, seed, _ = E.tier_seed()
    rng = random.Random(seed + 99)
    wd = E.workdir('pipeline')
    bad = 0
    try:
        cfg0 = E.write_cfg(os.path.join(wd, 'mc.cfg'), constants={'MaxTasks': 3, 'FirstCharSets': '{{"0", "1", "a"}}'}, invariants=['RanksImplyArtefacts', 'SummaryImpliesRanks', 'PlotsImplyRanks', 'CheckpointCleanedAfterRanking', 'AllIsTheThreeTasks', 'CrashOnlyWhenStated'])
        res = E.run_tlc('Pipeline', cfg0, timeout=600)
        E.require_ok(res, 'Pipeline')
        if not res.ok:
            print('Pipeline.tla invariant violated:', res.violated)
            return 1
        print(f'Pipeline.tla: {res.distinct} states, invariants hold')
        scenarios = [
            ({'kind': 'scoring', 'numeric': False, 'batches': 'loop', 'order': 1}, 1100, ['ranking', 'ranking_summary']),
            ({'kind': 'scoring', 'numeric': True, 'batches': 'loop+tail', 'order': 2}, 2300, ['ranking', 'ranking_summary']),
            ({'kind': 'scoring', 'numeric': False, 'batches': 'none', 'order': 1}, 300, ['ranking', 'ranking_summary']),
            ({'kind': 'Constant', 'numeric': False, 'batches': 'loop', 'order': 1}, 1100, ['identify_rare_values', 'feature_summary_transformers']),
            ({'kind': 'Constant', 'numeric': False, 'batches': 'loop', 'order': 1}, 1100, ['ranking']),
            ({'kind': '3mr', 'numeric': False, 'batches': 'tail-only', 'order': 2}, 1050, ['ranking', 'ranking_summary']),
            ({'kind': 'scoring', 'numeric': False, 'batches': 'loop', 'order': 1}, 1100, ['all', 'instance_ranking']),
            ({'kind': 'scoring', 'numeric': True, 'batches': 'tail-only', 'order': 1}, 1030, ['visualization', 'ranking', 'visualization']),
            ({'kind': 'scoring', 'numeric': False, 'batches': 'none', 'order': 1}, 300, ['all']),
            ({'kind': 'Constant', 'numeric': False, 'batches': 'loop', 'order': 1}, 1100, ['all']),
        ]
        if tier == 'quick':
            scenarios = scenarios[:4] + scenarios[6:8]
        tcfg = E.write_cfg(os.path.join(wd, 't.cfg'), spec='TSpec', constants={'MaxTasks': 5, 'FirstCharSets': '{{}}'}, postcondition='Accepted')
        for k, (c, nrows, tasks) in enumerate(scenarios):
            sub = os.path.join(wd, f's{k}')
            make_ds(os.path.join(sub, 'ds'), rng, nrows, c['numeric'])
            heur = {'scoring': 'MI-numba-randomized', '3mr': 'MI-numba-3mr', 'Constant': 'Constant'}[c['kind']]
            mb = {'loop': 1000, 'loop+tail': 1100, 'none': 1000, 'tail-only': 2000}[c['batches']]
            with open(os.path.join(sub, 'ds', 'data.csv')) as f_:
                chars = sorted({ln[0] for ln in f_ if ln})
            events = [dict(e='config', chars=chars, **c)]
            for t in tasks:
                rc, err = PC.run_cli(dict(task=t, data_path='ds', data_source='ob-csv' if c['numeric'] else 'csv-raw', minibatch_size=mb, subsampling=1, heuristic=heur,
                                          num_threads=2, output_folder='out', interaction_order=c['order'], target_ranking_only='False' if c['kind'] == '3mr' else 'True'), sub)
                present = artefacts(os.path.join(sub, 'out'))
                events.append({'e': 'task', 'task': t, 'out': present, 'ckpt': os.path.exists(os.path.join(sub, 'ranking_checkpoint_tmp.tsv')), 'crashed': rc != 0})
            tf = os.path.join(wd, f't{k}.ndjson')
            with open(tf, 'w') as f:
                for ev in events:
                    f.write(json.dumps(ev) + '\n')
            # the data set exists from the start: model it with an initial Generate step
            events.insert(1, {'e': 'task', 'task': 'data_generator', 'out': [], 'ckpt': False, 'crashed': False})
            with open(tf, 'w') as f:
                for ev in events:
                    f.write(json.dumps(ev) + '\n')
            r = E.run_tlc('TracePipeline', tcfg, workers=1, env={'TRACE_FILE': tf}, timeout=300)
            E.require_ok(r, 'TracePipeline')
            ok = r.ok
            print(f'scenario {k} {c} tasks={tasks}: {"accepted" if ok else "REJECTED at event " + str(r.depth)}')
            if ok and 'all' in tasks and c['batches'] != 'none' and c['kind'] != 'Constant':
                # negative control: the same run without its heat map is not a behaviour of the task `all`
                ev2 = [dict(e) for e in events]
                for e in ev2:
                    if e.get('task') == 'all':
                        e['out'] = [x for x in e['out'] if x != 'heatmap.pdf']
                with open(tf, 'w') as f:
                    for e in ev2:
                        f.write(json.dumps(e) + '\n')
                if E.run_tlc('TracePipeline', tcfg, workers=1, env={'TRACE_FILE': tf}, timeout=300).ok:
                    raise E.MachineryError('negative control: a run of `all` without heatmap.pdf accepted')
            if not ok:
                bad += 1
                print('   events:', json.dumps(events)[:900])
    finally:
        E.cleanup(wd)
    return 1 if bad else 0


if __name__ == '__main__':
    try:
        sys.exit(main())
    except E.MachineryError as e:
        print(f'MACHINERY-FAILURE pipeline: {e}', file=sys.stderr)
        sys.exit(2)
    except Exception as e:  # unexpected harness error: machinery failure, never a verdict
        import traceback
        traceback.print_exc()
        print(f'MACHINERY-FAILURE pipeline: unexpected {type(e).__name__}: {e}', file=sys.stderr)
        sys.exit(2)
