"""Building blocks used inside child processes that drive the real OutRank pipeline:
argument namespaces with the CLI defaults, a schedulable in-process pool with the pathos
surface, a silent progress bar, global-state reset, event recorder."""
from __future__ import annotations

import argparse
import itertools
import json
import logging
import os
import sys

import tqdm as _tqdm

_DEVNULL = open(os.devnull, 'w')

DEFAULTS = dict(
    task='ranking', minibatch_size=2 ** 14, output_folder='ranking_outputs', data_source='csv-raw', data_path=None,
    subsampling=1, combination_number_upper_bound=2 ** 15, missing_value_symbols=',{}', heuristic='MI-numba-randomized',
    include_noise_baseline_features='False', include_cardinality_in_feature_names='True', image_format='pdf',
    num_threads=1, label_column='label', max_unique_hist_constraint=30_000, transformers='none',
    rare_value_count_upper_bound=1, feature_set_focus=None, interaction_order=1, reference_model_JSON='',
    target_ranking_only='True', explode_multivalue_features='False', subfeature_mapping='False',
    num_synthetic_features=100, tldr='False', num_synthetic_rows=1000, generator_type='naive',
    output_synthetic_df_name='test_data_synthetic', disable_tqdm='True', mi_stratified_sampling_ratio=1.0,
)


def make_args(**kw):
    d = dict(DEFAULTS)
    d.update(kw)
    return argparse.Namespace(**d)


def cli_argv(**kw):
    d = dict(DEFAULTS)
    d.update(kw)
    out = []
    for k, v in d.items():
        if v is None:
            continue
        out += [f'--{k}', str(v)]
    return out


class Pbar(_tqdm.tqdm):
    """What the code is handed in production: a real tqdm bar, ENABLED (the CLI default), written to /dev/null.  (A stub
    with only set_description made any use of another tqdm attribute a machinery failure - seeded change C09-j.)"""

    def __init__(self, disable=False):
        super().__init__(total=0, file=_DEVNULL, disable=disable)


class _Result:
    def __init__(self, values):
        self._v = values

    def ready(self):
        return True

    def get(self, timeout=None):
        return self._v


class ScheduledPool:
    """Executable model of the pathos ProcessingPool surface.  Tasks are executed in-process in
    the order given by `completion` (a permutation of task indices, default identity) on `nodes`
    workers (worker assignment only recorded); amap/map/imap return results in SUBMISSION order,
    uimap in COMPLETION order - exactly the contracts of the real primitives."""

    def __init__(self, nodes=1, completion=None, log=None):
        self.nodes = nodes
        self.completion = completion
        self.log = log if log is not None else []
        self.calls = 0

    @property
    def ncpus(self):          # pathos ProcessingPool exposes both names
        return self.nodes

    def __enter__(self):
        return self

    def __exit__(self, *a):
        return False

    def _run(self, f, items):
        items = list(items)
        n = len(items)
        order = list(self.completion) if self.completion is not None else list(range(n))
        order = [i for i in order if i < n] + [i for i in range(n) if i not in set(order)]
        res = {}
        self.log.append({'e': 'Submit', 'n': n, 'tasks': [list(map(str, it)) if isinstance(it, (tuple, list)) else str(it) for it in items]})
        for k, i in enumerate(order):
            res[i] = f(items[i])
            self.log.append({'e': 'Finish', 'task': i, 'worker': k % max(1, self.nodes)})
        self.calls += 1
        return n, order, res

    def amap(self, f, items):
        n, order, res = self._run(f, items)
        self.log.append({'e': 'Gather', 'n': n})
        return _Result([res[i] for i in range(n)])

    def map(self, f, items):
        return self.amap(f, items).get()

    def imap(self, f, items):
        return iter(self.amap(f, items).get())

    def uimap(self, f, items):
        n, order, res = self._run(f, items)
        return iter([res[i] for i in order])

    def close(self):
        pass

    def join(self):
        pass

    def clear(self):
        pass


_PRISTINE = {}


def reset_globals():
    """Fresh process-global data-quality / sampler state (what a fresh interpreter has).  The
    pristine values are deep-copied from the module the first time this is called (right after
    import, before any use), so the reset never imposes a type of its own on the globals."""
    import copy

    import outrank.core_ranking as CR
    names = ('GLOBAL_CARDINALITY_STORAGE', 'GLOBAL_COUNTS_STORAGE', 'GLOBAL_RARE_VALUE_STORAGE', 'GLOBAL_PRIOR_COMB_COUNTS', 'IGNORED_VALUES')
    if not _PRISTINE:
        for n in names:
            _PRISTINE[n] = copy.deepcopy(getattr(CR, n))
    for n in names:
        cur = getattr(CR, n)
        if n in ('GLOBAL_CARDINALITY_STORAGE', 'GLOBAL_COUNTS_STORAGE', 'GLOBAL_PRIOR_COMB_COUNTS') and hasattr(cur, 'clear') and not _PRISTINE[n]:
            cur.clear()          # keep the object identity other modules may hold
        else:
            setattr(CR, n, copy.deepcopy(_PRISTINE[n]))


def quiet():
    logging.disable(logging.CRITICAL)


def read_req():
    return json.load(sys.stdin)


def reply(obj):
    sys.stdout.write('\n' + json.dumps(obj, allow_nan=True, default=_dflt) + '\n')
    sys.stdout.flush()


def _dflt(o):
    import numpy as np
    if isinstance(o, (np.integer,)):
        return int(o)
    if isinstance(o, (np.floating,)):
        return float(o)
    if isinstance(o, np.ndarray):
        return o.tolist()
    if isinstance(o, (set, frozenset)):
        return sorted(o, key=repr)
    return str(o)


def partition_of(values):
    """Canonical labelling (restricted growth string) of the equality partition of a list."""
    seen = {}
    out = []
    for v in values:
        if v not in seen:
            seen[v] = len(seen)
        out.append(seen[v])
    return out
