"""C09 - results independent of worker count and scheduling, and reproducible."""
from __future__ import annotations

import concurrent.futures as cf
import os
import random
import shutil
import sys

sys.path.insert(0, os.path.dirname(os.path.dirname(os.path.abspath(__file__))))
from harness import engine as E
from harness import pipe_common as PC

PID = 'C09'
INVS = ['ScheduleIndependent', 'ResultsComplete', 'PairsExact', 'BothOrientations']


def consts(**kw):
    c = {'Universe': '{1,2,3,4}', 'Rel': '{}', 'Label': 2, 'MinCols': 4, 'MaxCols': 4, 'Modes': '{"target"}', 'Heuristics': '{"scoring"}', 'Caps': '{50}',
         'Max3mr': 10000, 'Batches': 1, 'Workers': 2, 'ChunkSize': 1, 'PoolKind': '"amap"', 'ShuffleAll': 'TRUE', 'RelDiagonal': 'FALSE'}
    c.update(kw)
    return c


def run_spec(V, label, c, emit=True, coverage=False):
    wd = E.workdir('c09')
    try:
        cfg = E.write_cfg(os.path.join(wd, 'mc.cfg'), constants=c, invariants=INVS + (['EmitSchedule'] if emit else []))
        res = E.run_tlc('RankGraph', cfg, coverage=coverage, timeout=900)
        E.require_ok(res, label)
        V.add_tlc(res, label)
        V.tlc_violation(res, label)
        out = []
        if emit:
            for t in E.extract_tuples(res.stdout, 'SCHED'):
                _, cols, mode, ntasks, order, tasks = t
                out.append({'cols': list(cols), 'mode': mode, 'n': ntasks, 'order': [i - 1 for i in E.fun_to_list(order)], 'tasks': [list(p) for p in E.fun_to_list(tasks)]})
        return res, out
    finally:
        E.cleanup(wd)


def make_dataset(folder, rng, nrows, multivalue=True):
    os.makedirs(folder, exist_ok=True)
    with open(os.path.join(folder, 'data.csv'), 'w', encoding='utf-8') as f:
        f.write('f0,f1,f2,m,zz,hc,label\n')      # hc: more distinct values per batch than any subsampling budget
        for i in range(nrows):
            t = rng.randrange(2)
            mv = rng.choice(['a,b', 'b', 'a-c', '', 'c,b,a', 'b-d'])
            f.write(f'{t ^ (rng.random() < 0.2)},{rng.randrange(5)},{rng.randrange(40)},"{mv}",{(t + rng.randrange(3)) % 4},u{rng.randrange(5000)},{t}\n')


def main():
    tier, seed, replay = E.tier_seed()
    V = E.Verdict(PID, tier, seed)
    rng = random.Random(seed * 122949823 + 9)
    V.coverage['rule'] = ('TLC: RankGraph.tla pool sub-machine Submit/Take(w)/Finish(w)/Gather with every shuffle permutation, every worker interleaving (W<=3, <=8 tasks, '
                          'chunk sizes 1-2), amap and uimap variants: ScheduleIndependent, ResultsComplete.  Every TLC schedule (shuffle permutation + completion order) is '
                          'executed by ScheduledPool under the real mixed_rank_graph and compared bit for bit with the reference run.  CLI runs of the real ranking task in '
                          'fresh processes with the real pathos pool: pool sizes x repetitions x PYTHONHASHSEED x flag sets; pairwise_ranks.tsv compared as sorted row sets with '
                          'identical score text.  non-trivial = distinct schedules that differ from the reference order + CLI runs')
    V.assumptions += ['the 4 s polling sleep is shortened through core_ranking.time (polled condition unchanged)',
                      'worker processes of the real pool are scheduled by the OS: CLI runs sample real schedules, the TLC model covers all of them for small pools']

    specs = [('amap-W2-4tasks', consts()), ('uimap-W2-4tasks', consts(PoolKind='"uimap"'))]
    if tier != 'quick':
        specs += [('amap-W3-chunk2-8tasks', consts(Universe='{1,2,3}', MinCols=3, MaxCols=3, Modes='{"pairwise"}', Workers=3, ChunkSize=2, ShuffleAll='FALSE')),
                  ('amap-W3-5tasks', consts(Universe='{1,2,3,4,5}', MinCols=5, MaxCols=5, Workers=3, ShuffleAll='FALSE'))]
    # liveness of the pool: every submitted chunk is taken, finished and gathered, all batches complete (fair workers);
    # control: without fairness the property fails
    wdl = E.workdir('c09l')
    try:
        cl = consts(Universe='{1,2,3}', MinCols=3, MaxCols=3, Modes='{"pairwise"}', Workers=2, ChunkSize=2, ShuffleAll='FALSE')
        cfgl = E.write_cfg(os.path.join(wdl, 'live.cfg'), spec='FairSpec', constants=cl, properties=['AllBatchesComplete', 'SubmittedIsGathered'])
        rl = E.run_tlc('RankGraph', cfgl, timeout=900)
        E.require_ok(rl, 'RankGraph/liveness')
        V.add_tlc(rl, 'RankGraph/liveness')
        V.tlc_violation(rl, 'RankGraph/liveness')
        cfgn = E.write_cfg(os.path.join(wdl, 'nofair.cfg'), spec='Spec', constants=cl, properties=['AllBatchesComplete'])
        rn = E.run_tlc('RankGraph', cfgn, timeout=900)
        E.require_ok(rn, 'RankGraph/liveness-control')
        if rn.ok:
            raise E.MachineryError('liveness control: AllBatchesComplete holds without fairness (vacuous)')
        V.notes['liveness'] = 'FairSpec => AllBatchesComplete, SubmittedIsGathered (TLC, 2 workers, chunks of 2); control: violated without fairness'
    finally:
        E.cleanup(wdl)
    names = {1: 'a', 2: 'label', 3: 'labelx', 4: 'zeta', 5: 'zz'}
    frame_rows = 60
    base = [rng.randrange(2) for _ in range(frame_rows)]
    frame_all = {'label': [str(v) for v in base], 'a': [str(v ^ (rng.random() < 0.25)) for v in base], 'labelx': [rng.choice(['x', 'y', 'z', '']) for _ in base],
                 'zeta': [f'u{rng.randrange(200)}' for v in base], 'zz': [rng.choice(['é', 'e']) for _ in base]}
    for label, c in specs:
        res, scheds = run_spec(V, f'RankGraph/{label}', c, coverage=(label == 'amap-W2-4tasks'))
        if not scheds:
            raise E.MachineryError('no schedules emitted')
        if res.coverage:
            for a in ('Take', 'Finish', 'Gather', 'Shuffle'):
                if res.coverage.get(a, (0, 0))[0] == 0:
                    raise E.MachineryError(f'action {a} never taken')
        if 'uimap' in label:
            continue     # model-only variant (the code uses amap); shows the bag of triplets is order-free
        # distinct (shuffle, completion) pairs
        seen = {}
        for s in scheds:
            seen[(tuple(map(tuple, s['tasks'])), tuple(s['order']))] = s
        scheds = list(seen.values())
        if tier == 'quick' and len(scheds) > 400:
            scheds = rng.sample(scheds, 400)
        jobs = []
        for si, s in enumerate(scheds):
            cols = [names[i] for i in s['cols']]
            ratio = 1.0 if si % 3 else 0.5          # every third schedule also exercises the stratified subsampling path
            # shuffle permutation: tasks = perm of the candidate list in enumeration order
            jobs.append({'op': 'rank_graph', 'columns': cols, 'frame': {n: frame_all[n] for n in cols}, 'batches': 1, 'nodes': c['Workers'],
                         'completion': s['order'], 'perm_tasks': [[names[a], names[b]] for a, b in s['tasks']],
                         'args': {'heuristic': 'MI-numba-randomized', 'label_column': 'label', 'combination_number_upper_bound': 50,
                                  'mi_stratified_sampling_ratio': ratio, 'target_ranking_only': 'True' if s['mode'] == 'target' else 'False'}})
        ref_jobs = {}
        for j in jobs:
            k = (tuple(j['columns']), j['args']['mi_stratified_sampling_ratio'])
            if k not in ref_jobs:
                ref_jobs[k] = dict(j, completion=None, nodes=1, perm_tasks=None)
        refs = PC.pipe_eval(list(ref_jobs.values()), modules=['pipe_ops'])
        refmap = {}
        for k, r in zip(ref_jobs, refs):
            if r is None or 'ok' not in r:
                raise E.MachineryError(f'reference run failed: {PC.failure_text(r)}')
            refmap[k] = sorted(map(tuple, r['ok'][0]['trip']))
        got = PC.pipe_eval(jobs, modules=['pipe_ops'])
        nontriv = 0
        for j, r in zip(jobs, got):
            key = f'schedule:cols={j["columns"]} shuffle={j["perm_tasks"]} completion={j["completion"]} workers={j["nodes"]}'
            if r is None or 'ok' not in r:
                V.violation('raises:' + key, f'mixed_rank_graph failed under a schedule: {PC.failure_text(r)}', j)
                continue
            if j['completion'] != sorted(j['completion']):
                nontriv += 1
            t = sorted(map(tuple, r['ok'][0]['trip']))
            rk = (tuple(j['columns']), j['args']['mi_stratified_sampling_ratio'])
            if t != refmap[rk]:
                V.violation(key, f'triplets differ from the reference run (1 worker, submission order): {t[:3]} vs {refmap[rk][:3]}', j)
        V.count(evaluations=len(jobs), nontrivial=nontriv, traces=len(jobs))
        V.add_sample({'schedule': {k: jobs[len(jobs) // 2][k] for k in ('columns', 'completion', 'perm_tasks', 'nodes')}})

    # ---- CLI: fresh processes, real pool
    wd = E.workdir('c09cli')
    try:
        make_dataset(os.path.join(wd, 'ds'), rng, 3500)      # two full batches of 1200 and a shorter trailing batch of 1100 rows
        base_args = dict(task='ranking', data_path='ds', data_source='csv-raw', minibatch_size=1200, subsampling=1, heuristic='MI-numba-randomized')
        groups = {
            'default': dict(base_args),
            'pairwise+noise': dict(base_args, target_ranking_only='False', include_noise_baseline_features='True'),
            'multivalue-pairwise': dict(base_args, target_ranking_only='False', explode_multivalue_features='m'),
            'focus-pairwise': dict(base_args, target_ranking_only='False', feature_set_focus='f0,f2,zz,m'),
            'subsampled-mi': dict(base_args, target_ranking_only='False', mi_stratified_sampling_ratio=0.5),
            'progress-bar-on': dict(base_args, target_ranking_only='False', disable_tqdm='False'),      # the CLI default; uneven task costs (hc)
            'binding-cap': dict(base_args, target_ranking_only='False', combination_number_upper_bound=5),      # which pairs survive the cap must not depend on the process
        }
        # a user-chosen large mini-batch (100000 rows) on a file of 90000 rows: where the batches are cut must not depend on the pool
        os.makedirs(os.path.join(wd, 'ds_big'))
        with open(os.path.join(wd, 'ds_big', 'data.csv'), 'w') as f_:
            f_.write('g0,g1,label\n')
            for i_ in range(90000):
                t_ = rng.randrange(2)
                f_.write(f'{t_ ^ (rng.random() < (0.1 + 0.3 * i_ / 90000))},{rng.randrange(6)},{t_}\n')      # the signal drifts along the file
        groups['large-minibatch'] = dict(base_args, data_path='ds_big', minibatch_size=100000)
        if tier != 'quick':
            groups['interactions-cap'] = dict(base_args, interaction_order=2, combination_number_upper_bound=7)
            groups['subfeatures-pairwise'] = dict(base_args, target_ranking_only='False', subfeature_mapping='f1->zz')
            groups['plain-mi'] = dict(base_args, heuristic='MI')
        threads = [1, 3] if tier == 'quick' else [1, 2, 4, 8, 16]
        reps = 1 if tier == 'quick' else 2
        runs = []
        for g, a in groups.items():
            k = 0
            for th in threads:
                for rep in range(reps):
                    k += 1
                    runs.append((g, th, str((seed * 31 + k * 7 + th) % 1000 + 1), f'out_{g.replace("+", "_")}_{th}_{rep}', a))

        def one(run):
            g, th, hs, out, a = run
            sub = os.path.join(wd, out + '_cwd')
            os.makedirs(sub, exist_ok=True)
            os.symlink(os.path.join(wd, 'ds'), os.path.join(sub, 'ds'))
            os.symlink(os.path.join(wd, 'ds_big'), os.path.join(sub, 'ds_big'))
            rc, err = PC.run_cli(dict(a, num_threads=th, output_folder='out'), sub, hashseed=hs)
            rows = None
            if rc == 0 and os.path.exists(os.path.join(sub, 'out', 'pairwise_ranks.tsv')):
                rows = sorted(PC.read_ranks(os.path.join(sub, 'out'))[1])
            return run, rc, err, rows
        with cf.ThreadPoolExecutor(max_workers=5) as ex:
            results = list(ex.map(one, runs))
        bygroup = {}
        for (g, th, hs, out, a), rc, err, rows in results:
            if rows is None:
                V.violation(f'cli-failed:{g}:threads={th}', f'ranking task exited {rc}: {err[-400:]}', {'group': g, 'args': a, 'threads': th, 'hashseed': hs})
                continue
            bygroup.setdefault(g, []).append((th, hs, rows))
        for g, lst in bygroup.items():
            th0, hs0, ref = lst[0]
            for th, hs, rows in lst[1:]:
                if rows != ref:
                    diff = [(a, b) for a, b in zip(ref, rows) if a != b][:3]
                    same_threads = th == th0
                    V.violation(f'cli-differs:{g}', f'pairwise_ranks.tsv differs between fresh runs (threads {th0} vs {th}, PYTHONHASHSEED {hs0} vs {hs}); first differences: {diff} '
                                f'(row counts {len(ref)} vs {len(rows)})', {'group': g, 'args': groups[g], 'threads': [th0, th], 'hashseeds': [hs0, hs]})
                    break
            V.count(evaluations=len(lst), nontrivial=len(lst), traces=len(lst))
        if 'default' in bygroup:
            V.add_sample({'cli_group': 'default', 'threads': threads, 'rows': bygroup['default'][0][2][:4]})
    finally:
        E.cleanup(wd)
    V.coverage['exhaustive'] = True
    return V.finish()


if __name__ == '__main__':
    try:
        sys.exit(main())
    except E.MachineryError as e:
        print(f'MACHINERY-FAILURE {PID}: {e}', file=sys.stderr)
        sys.exit(2)
    except Exception as e:  # unexpected harness error: machinery failure, never a verdict
        import traceback
        traceback.print_exc()
        print(f'MACHINERY-FAILURE {PID}: unexpected {type(e).__name__}: {e}', file=sys.stderr)
        sys.exit(2)
