"""C17 - 3MR ranking is a greedy-optimal permutation of the features."""
from __future__ import annotations

import csv
import json
import os
import random
import sys

sys.path.insert(0, os.path.dirname(os.path.dirname(os.path.abspath(__file__))))
from harness import engine as E
from harness import pipe_common as PC

PID = 'C17'


def run_spec(V, label, c):
    wd = E.workdir('c17')
    try:
        # a cfg file cannot hold negative numbers: sets go through a wrapper module
        mc = E.write_mc(wd, 'Ranking3MR', {'MC_PairVals': c['PairVals'], 'MC_RelVals': c['RelVals']})
        c = dict(c, PairVals='<- MC_PairVals', RelVals='<- MC_RelVals')
        cfg = E.write_cfg(os.path.join(wd, 'mc.cfg'), constants=c, invariants=['IsPermutationPrefix', 'Complete', 'Progress', 'Emit'])
        res = E.run_tlc(mc, cfg, timeout=1200, coverage=True)
        E.require_ok(res, label)
        V.add_tlc(res, label)
        V.tlc_violation(res, label)
        cases = []
        for t in E.extract_tuples(res.stdout, 'CASE'):
            _, st, rel, red, rln, ranked = t
            as_map = lambda d: ({i + 1: v for i, v in enumerate(d)} if isinstance(d, tuple) else dict(d))
            cases.append((st, as_map(rel), as_map(red) if red else {}, as_map(rln) if rln else {}, list(ranked)))
        return res, cases
    finally:
        E.cleanup(wd)


def validate(wd, events, name='t'):
    tf = os.path.join(wd, name + '.ndjson')
    with open(tf, 'w') as f:
        for ev in events:
            f.write(json.dumps(ev) + '\n')
    cfg = E.write_cfg(os.path.join(wd, name + '.cfg'), spec='Spec', postcondition='Accepted')
    res = E.run_tlc('Trace3MR', cfg, workers=1, env={'TRACE_FILE': tf}, timeout=900)
    E.require_ok(res, 'Trace3MR')
    return res


def call_events(it, ob, tol=0):
    ev = [{'e': 'begin', 'features': sorted(it['rel']), 'rel': it['rel'], 'red': it['red'], 'rln': it['rln'], 'strategy': it['strategy'],
           'an': int(round(it['alpha'] * 2)), 'bn': int(round(it['beta'] * 2)), 'tol': tol}]
    for f, r in zip(ob['order'], ob['ranks']):
        ev.append({'e': 'pick', 'f': f, 'rank': r})
    ev.append({'e': 'end'})
    return ev


def main():
    tier, seed, replay = E.tier_seed()
    V = E.Verdict(PID, tier, seed)
    rng = random.Random(seed * 295075147 + 17)
    V.coverage['rule'] = ('TLC: Ranking3MR.tla - greedy machine Start/Pick with nondeterministic ties, exact integer arithmetic (importance x 4k), every dictionary over 3 features '
                          '(relevance {0,1,2}, pair values {0,1} or {-1,0,1}) x {median, mean, sum} x (alpha, beta) in {(1,1), (1/2, 2)}; the set of allowed complete rankings per '
                          'dictionary must contain the real rank_features_3MR output.  Seeded dictionaries over 1..30 features (dense/sparse pairs, ties, negative values, alpha/beta in '
                          '{0, 1/2, 1, 2}) are ranked by the real function and each returned order is validated pick by pick by Trace3MR.tla; one CLI run with MI-numba-3mr binds '
                          '3mr_ranks.tsv to the triplets of the same run.  non-trivial = distinct dictionaries with >= 3 features')
    V.assumptions += ['finite scores (precondition of the statement); integer-valued dictionaries so that float and exact arithmetic coincide']

    confs = [('red-only', {'Features': '{1,2,3}', 'RelVals': '{0,1,2}', 'PairVals': '{0,1}', 'Strategies': '{"median","mean","sum"}', 'An': 2, 'Bn': 2, 'UseRed': 'TRUE', 'UseRln': 'FALSE'})]
    if tier != 'quick':
        confs += [('rln-only', {'Features': '{1,2,3}', 'RelVals': '{0,1,2}', 'PairVals': '{-1,0,1}', 'Strategies': '{"median","mean","sum"}', 'An': 2, 'Bn': 4, 'UseRed': 'FALSE', 'UseRln': 'TRUE'}),
                  ('both-half-alpha', {'Features': '{1,2,3}', 'RelVals': '{0,1}', 'PairVals': '{0,1}', 'Strategies': '{"median","sum"}', 'An': 1, 'Bn': 4, 'UseRed': 'TRUE', 'UseRln': 'TRUE'})]
    for label, c in confs:
        res, cases = run_spec(V, f'Ranking3MR/{label}', c)
        if not cases:
            raise E.MachineryError('no cases')
        allowed = {}
        for st, rel, red, rln, ranked in cases:
            k = (st, tuple(sorted(rel.items())), tuple(sorted(red.items())), tuple(sorted(rln.items())))
            allowed.setdefault(k, set()).add(tuple(ranked))
        keys = list(allowed)
        items = []
        for st, rel, red, rln in keys:
            items.append({'strategy': st, 'alpha': c['An'] / 2, 'beta': c['Bn'] / 2, 'rel': {f'f{k_}': v for k_, v in rel},
                          'red': [[f'f{g}', f'f{f}', v] for (g, f), v in red], 'rln': [[f'f{g}', f'f{f}', v] for (g, f), v in rln]})
        got = PC.pipe_eval([{'op': 'rank3mr', 'items': items[i:i + 1500]} for i in range(0, len(items), 1500)], modules=['sketch_ops'])
        flat = []
        for r in got:
            if not r or 'ok' not in r:
                raise E.MachineryError('rank3mr op failed: ' + PC.failure_text(r))
            flat += r['ok']
        for k, it, ob in zip(keys, items, flat):
            key = f'dict:strategy={it["strategy"]} alpha={it["alpha"]} beta={it["beta"]} rel={it["rel"]} red={it["red"]} rln={it["rln"]}'
            if 'error' in ob:
                V.violation('raises:' + key, ob['error'], it)
                continue
            order = tuple(int(f[1:]) if f else None for f in ob['order'])
            if order not in allowed[k]:
                V.violation(key, f'returned order {ob["order"]} is not greedy-optimal; allowed orders {sorted(allowed[k])}', it)
            elif ob['ranks'] != list(range(1, len(order) + 1)):
                V.violation('ranks:' + key, f'ranks {ob["ranks"]}', it)
        V.count(evaluations=len(keys), nontrivial=len(keys), traces=len(keys))
        V.add_sample({'dictionary': items[len(items) // 2], 'real_order': flat[len(items) // 2].get('order'), 'allowed': sorted(allowed[keys[len(items) // 2]])})

    # ---- seeded dictionaries -> Trace3MR
    items = []
    ncalls = 60 if tier == 'quick' else 600
    for k in range(ncalls):
        n = rng.choice([1, 2, 3, 5, 8, 13, 30]) if k % 3 else rng.randrange(1, 31)
        feats = [rng.choice(['f', 'feat ', 'é', 'x-', 'AND ', '']) + str(i) for i in range(n)]
        vals = rng.choice([[0, 1], [-3, -1, 0, 2, 5], list(range(-20, 21)), [1]])
        dens = rng.choice([0.0, 0.3, 1.0])
        big = k % 3 == 2
        if big:
            # count-like scores above 2^26: exact in double precision, closer together than single precision resolves
            # (n = 3, alpha, beta <= 1 and no 'sum' strategy keep the trace arithmetic inside TLC's 32-bit integers)
            n = 3
            feats = [rng.choice(['f', 'feat ', 'é', 'x-']) + str(i) for i in range(n)]
            vals = [2 ** 26 + d for d in (0, 1, 2, 3, 5, 6, 7)]
            dens = 1.0
        int_keys = (not big) and k % 4 == 1
        if int_keys:
            feats = [str(i) for i in range(n)]          # integer column ids 0..n-1 (sent as strings, converted by the op)
        it = {'int_keys': int_keys, 'strategy': rng.choice(['median', 'mean', 'sum'] if not big else ['median', 'mean']), 'alpha': rng.choice([0, 0.5, 1, 2] if not big else [0.5, 1]), 'beta': rng.choice([0, 0.5, 1, 2] if not big else [0, 0.5, 1]),
              'rel': ({f: rng.choice(vals) for f in feats} if not (big and k % 2) else {f: vals[0] for f in feats}),      # equal relevances: the pair scores decide
              'red': [[g, f, rng.choice(vals)] for g in feats for f in feats if rng.random() < dens],
              'rln': [[g, f, rng.choice(vals)] for g in feats for f in feats if rng.random() < dens * 0.7]}
        items.append(it)
    got = PC.pipe_eval([{'op': 'rank3mr', 'items': items[i:i + 100]} for i in range(0, len(items), 100)], modules=['sketch_ops'])
    flat = []
    for r in got:
        if not r or 'ok' not in r:
            raise E.MachineryError('rank3mr op failed: ' + PC.failure_text(r))
        flat += r['ok']
    wd = E.workdir('c17t')
    try:
        good = []
        for it, ob in zip(items, flat):
            if 'error' in ob:
                V.violation(f'raises:seeded n={len(it["rel"])}', ob['error'], it)
            elif None in ob['order']:
                V.violation(f'incomplete:seeded n={len(it["rel"])} strategy={it["strategy"]}', f'ranking contains a missing entry: {ob["order"]}', it)
            else:
                good.append((it, ob))
        todo = good
        guard = 0
        while todo and guard < 8:
            guard += 1
            events = []
            offs = []
            for it, ob in todo:
                offs.append(len(events))
                events += call_events(it, ob)
            res = validate(wd, events)
            if guard == 1:
                V.add_tlc(res, 'Trace3MR(seeded)')
            if res.ok:
                break
            line = res.depth - 1
            idx = max(i for i, o in enumerate(offs) if o <= line)
            it, ob = todo[idx]
            ev = events[line]
            V.violation(f'seeded:n={len(it["rel"])} strategy={it["strategy"]} alpha={it["alpha"]} beta={it["beta"]}',
                        f'Trace3MR rejects event {json.dumps(ev)} of the returned order {ob["order"][:12]}: not a remaining feature of maximal importance / not every feature once / ranks not 1..n', it)
            todo = todo[idx + 1:]
        V.count(evaluations=len(good), nontrivial=sum(1 for it, _ in good if len(it['rel']) >= 3), traces=len(good))
        # negative control: swap the first two picks of a call with distinct relevances
        for it, ob in good:
            if len(ob['order']) >= 3 and len({it['rel'][f] for f in ob['order'][:2]}) == 2:
                bad = dict(ob, order=[ob['order'][1], ob['order'][0]] + ob['order'][2:])
                if validate(wd, call_events(it, bad), 'neg').ok:
                    raise E.MachineryError('negative control: swapped order accepted')
                V.notes['negative_control'] = 'Trace3MR rejects an order whose first two picks were swapped'
                break

        # ---- CLI binding: 3mr_ranks.tsv vs the triplets of the same run
        sub = os.path.join(wd, 'cli')
        os.makedirs(os.path.join(sub, 'ds'))
        with open(os.path.join(sub, 'ds', 'data.csv'), 'w') as f:
            f.write('a,b,c,d,label\n')
            for i in range(2400):
                t = rng.randrange(2)
                a = t ^ (rng.random() < 0.1)
                f.write(f'{int(a)},{int(a) ^ (rng.random() < 0.3)},{rng.randrange(4)},{(t + rng.randrange(3)) % 3},{t}\n')
        rc, err = PC.run_cli(dict(task='ranking', data_path='ds', data_source='csv-raw', minibatch_size=1200, subsampling=1, heuristic='MI-numba-3mr', num_threads=2, output_folder='out',
                                  target_ranking_only='False', interaction_order=2, include_cardinality_in_feature_names='False'), sub)
        p3 = os.path.join(sub, 'out', '3mr_ranks.tsv')
        if rc != 0 or not os.path.exists(p3):
            V.violation('cli-failed:3mr', f'ranking task with MI-numba-3mr exited {rc}: {err[-500:]}', {'heuristic': 'MI-numba-3mr'})
        else:
            with open(os.path.join(sub, 'out', 'pairwise_ranks.tsv'), newline='') as f:
                trip = [(a, b, float(s)) for a, b, s in list(csv.reader(f, delimiter='\t'))[1:]]
            with open(p3, newline='') as f:
                rows = list(csv.reader(f, delimiter='\t'))[1:]
            # the dictionaries as task_ranking builds them (relevance / relations / redundancy, each min-max normalised)
            def norm(d):
                if not d:
                    return {}
                lo, hi = min(d.values()), max(d.values())
                return {k: (v - lo) / (hi - lo) if hi > lo else float('nan') for k, v in d.items()}
            relv = norm({a: s for a, b, s in trip if b == 'label' and ' AND_REL ' not in a and a != 'label'})
            rl = norm({a: s for a, b, s in trip if b == 'label' and ' AND_REL ' in a})
            rln = {}
            for a, s in rl.items():
                x, y = a.split(' AND_REL ')
                rln[(x, y)] = s
                rln[(y, x)] = s
            red = norm({(a, b): s for a, b, s in trip if a != 'label' and b != 'label' and ' AND_REL ' not in a and ' AND_REL ' not in b})
            sc = lambda v: int(round(v * 2 ** 16))
            it = {'strategy': 'median', 'alpha': 1.0, 'beta': 1.0, 'rel': {k: sc(v) for k, v in relv.items()},
                  'red': [[g, f, sc(v)] for (g, f), v in red.items() if v == v], 'rln': [[g, f, sc(v)] for (g, f), v in rln.items() if v == v]}
            ob = {'order': [r_[0] for r_ in rows], 'ranks': [int(r_[1]) for r_ in rows]}
            res = validate(wd, call_events(it, ob, tol=64), 'cli')
            V.add_tlc(res, 'Trace3MR(cli)')
            if not res.ok:
                V.violation('cli:3mr_ranks', f'3mr_ranks.tsv {ob["order"]} is not a greedy-optimal ranking of the features for the scores of the same run (event #{res.depth - 1})', {'order': ob['order'], 'rel': relv})
            V.count(evaluations=1, nontrivial=1, traces=1)
            V.add_sample({'cli_3mr_ranks': ob['order'], 'relevance': relv})
    finally:
        E.cleanup(wd)
    V.coverage['exhaustive'] = True
    return V.finish()


if __name__ == '__main__':
    try:
        sys.exit(main())
    except E.MachineryError as e:
        print(f'MACHINERY-FAILURE {PID}: {e}', file=sys.stderr)
        sys.exit(2)
    except Exception as e:  # unexpected harness error: machinery failure, never a verdict
        import traceback
        traceback.print_exc()
        print(f'MACHINERY-FAILURE {PID}: unexpected {type(e).__name__}: {e}', file=sys.stderr)
        sys.exit(2)
