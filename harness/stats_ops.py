"""Child-side operations for the specification's growth beyond the listed properties
(NumericStats.tla): the numeric-bounds bookkeeping of the ranking task."""
from __future__ import annotations

import math

import pandas as pd

import outrank.core_ranking as CR
from outrank.core_utils import summarize_feature_bounds_for_transformers


def _cell(v):
    return '' if v == 'NaN' else str(v)


def op_numeric_stats(job):
    """job: items [{'loop': [[cell,...],...]}] - the loop batches of one column 'num' declared numeric (cells are ints or
    'NaN' = blank).  Per item: compute_bounds_increment per batch, then summarize_feature_bounds_for_transformers."""
    out = []
    for it in job['items']:
        store = []
        try:
            for b in it['loop']:
                df = pd.DataFrame({'num': [_cell(v) for v in b], 'other': ['x'] * len(b), 'label': ['1'] * len(b)})
                store.append(CR.compute_bounds_increment(df, {'num'}))
            tab = summarize_feature_bounds_for_transformers(store, {'num'}, 'ranking', 'label', output_summary_table_only=True)
        except Exception as e:  # noqa: BLE001
            out.append({'error': repr(e)[:300]})
            continue
        if tab is None:
            out.append({'table': None})
            continue
        rows = tab.values.tolist()
        r = [x for x in rows if x[0] == 'num']
        if len(r) != 1:
            out.append({'error': f'{len(r)} table rows for the numeric column; rows {rows}'})
            continue

        def f(x):
            x = float(x)
            return 'nan' if math.isnan(x) else x
        out.append({'table': {'mn': f(r[0][1]), 'mx': f(r[0][2]), 'med': f(r[0][3]), 'uq': int(r[0][4])}, 'columns': [str(c) for c in tab.columns], 'nrows': len(rows)})
    return out


OPS = {k[3:]: v for k, v in list(globals().items()) if k.startswith('op_')}
