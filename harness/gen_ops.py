"""pipe_child operations for the synthetic data generators (C19, C20)."""
from __future__ import annotations

import warnings

import numpy as np

from outrank.algorithms.synthetic_data_generators.cc_generator import CategoricalClassification


def _struct(s):
    """JSON structure -> what generate_data expects (tuples of (index | [indices], attrs))."""
    if s is None:
        return None
    return [(e[0], e[1]) for e in s]


def op_gen_data(job):
    out = []
    for it in job['items']:
        kw = dict(it['kw'])
        kw['structure'] = _struct(kw.get('structure'))
        try:
            X = CategoricalClassification().generate_data(**kw)
            X2 = CategoricalClassification().generate_data(**dict(kw))
        except Exception as e:  # noqa: BLE001
            out.append({'error': repr(e)[:300]})
            continue
        out.append({'shape': list(X.shape), 'int32': str(X.dtype) == 'int32', 'same_again': bool(np.array_equal(X, X2)),
                    'cols': [sorted(set(int(v) for v in X[:, j])) for j in range(X.shape[1])] if X.ndim == 2 else [],
                    'digest': int(np.sum(X.astype(np.int64) * (np.arange(X.size).reshape(X.shape) % 97 + 1)) % (2 ** 31))})
    return out


def _digest(X):
    return [list(X.shape), int(np.sum(X.astype(np.int64) * (np.arange(X.size).reshape(X.shape) % 97 + 1)) % (2 ** 31))]


def op_gen_session(job):
    """Sessions of GeneratorSession.tla on ONE instance.  job: argsets {name: kw}, seeds {id: seed}, sessions [[step,...]];
    step = ["construct",0,s] | ["generate",a,s] | ["derive",0,0] | ["foreign",0,0].  Returns per session the digests of
    the generate steps, and per (a, s) the digest of a fresh instance."""
    fresh = {}
    for a, kw in job['argsets'].items():
        for sid, seed in job['seeds'].items():
            kw2 = dict(kw, structure=_struct(kw.get('structure')), seed=seed)
            fresh[f'{a}/{sid}'] = _digest(CategoricalClassification(seed=seed).generate_data(**kw2))
    out = []
    for sess in job['sessions']:
        g, X, digs = None, None, []
        try:
            for kind, a, sid in sess:
                if kind == 'construct':
                    g = CategoricalClassification(seed=job['seeds'][str(sid)])
                elif kind == 'generate':
                    kw = job['argsets'][a]
                    X = g.generate_data(**dict(kw, structure=_struct(kw.get('structure')), seed=job['seeds'][str(sid)]))
                    digs.append([a, str(sid), _digest(X)])
                elif kind == 'derive':
                    with warnings.catch_warnings():
                        warnings.simplefilter('ignore')
                        g.generate_correlated(X, 0, r=0.5)       # draws from the global RNG, no re-seeding
                else:
                    np.random.random(3)
            out.append({'digests': digs})
        except Exception as e:  # noqa: BLE001
            out.append({'error': repr(e)[:300]})
    return {'fresh': fresh, 'sessions': out}


def op_naive(job):
    from outrank.algorithms.synthetic_data_generators import generator_naive
    out = []
    for nf, size in job['sizes']:
        s, t = generator_naive.generate_random_matrix(nf, size)
        needle = s[:, 30]
        fn = {}
        functional = True
        for a, b in zip(needle.tolist(), t.tolist()):
            if fn.setdefault(a, b) != b:
                functional = False
        out.append({'shape': list(s.shape), 'tshape': list(t.shape), 'functional': functional, 'labels': sorted(set(t.tolist())),
                    'lo': int(s.min()), 'hi': int(s.max())})
    return out


def op_gen_calls(job):
    """Derived-structure call sequences on a base data set; after every call: shape, the
    self-description, and the measured relation of the new columns to their sources."""
    out = []
    for it in job['items']:
        g = CategoricalClassification()
        X = g.generate_data(it['nsource'], it['nsamples'], cardinality=it.get('card', 6), ensure_rep=True, seed=it['seed'], low=it.get('low', 0))
        if it.get('constant_source') is not None:
            X[:, it['constant_source']] = 3
        steps = []
        try:
            for call in it['calls']:
                before = X.shape[1]
                sel = call['sel'] if len(call['sel']) > 1 or call.get('as_list') else call['sel'][0]
                src = np.array(X[:, call['sel']], dtype=float)
                if call['op'] == 'correlate':
                    with warnings.catch_warnings():
                        warnings.simplefilter('ignore')
                        X = g.generate_correlated(X, sel, r=call['r'])
                    obs = []
                    for k in range(len(call['sel'])):
                        a, b = src[:, k], np.array(X[:, before + k], dtype=float)
                        obs.append(float(np.corrcoef(a, b)[0, 1]) if np.std(a) > 0 else None)
                    rec = g.dataset_info['correlations'][-1]
                    steps.append({'op': 'correlate', 'added': X.shape[1] - before, 'obs': obs,
                                  'info_cols': np.atleast_1d(rec['correlated_indices']).astype(int).tolist(), 'info_sel': np.atleast_1d(rec['feature_indices']).astype(int).tolist()})
                elif call['op'] == 'duplicate':
                    X = g.generate_duplicates(X, sel)
                    eq = [bool(np.array_equal(src[:, k], np.array(X[:, before + k], dtype=float))) for k in range(X.shape[1] - before)]
                    rec = g.dataset_info['duplicates'][-1]
                    steps.append({'op': 'duplicate', 'added': X.shape[1] - before, 'equal': eq,
                                  'info_cols': np.atleast_1d(rec['duplicate_indices']).astype(int).tolist(), 'info_sel': np.atleast_1d(rec['feature_indices']).astype(int).tolist()})
                else:
                    kind = call.get('kind', 'linear')
                    if kind in ('xor', 'and', 'or'):
                        # the class's own bitwise combination helpers, passed as the custom combination function
                        X = g.generate_combinations(X, call['sel'], combination_function=getattr(g, '_' + kind))
                        want = getattr(np, 'bitwise_' + kind).reduce(src.astype(np.int64), axis=1)
                    else:
                        X = g.generate_combinations(X, call['sel'], combination_type=kind)
                        want = src.sum(axis=1) if kind == 'linear' else np.sin(src.sum(axis=1))
                    rec = g.dataset_info['combinations'][-1]
                    steps.append({'op': 'combine', 'added': X.shape[1] - before, 'equal': bool(np.allclose(np.array(X[:, before], dtype=float), want, rtol=0, atol=1e-12)),
                                  'info_cols': [int(rec['combination_ix'])], 'info_sel': [int(v) for v in rec['feature_indices']], 'info_kind': rec['combination_type']})
        except Exception as e:  # noqa: BLE001
            out.append({'error': repr(e)[:300], 'steps': steps})
            continue
        out.append({'steps': steps, 'ncols': int(X.shape[1])})
    return out


def op_gen_labels(job):
    out = []
    for it in job['items']:
        g = CategoricalClassification()
        rng = np.random.RandomState(it['seed'])
        X = rng.normal(size=(it['nsamples'], 3)) if it['decision'] != 'ties' else rng.randint(0, 3, size=(it['nsamples'], 3)).astype(float)
        dec = {'sum': (lambda x: np.sum(x, axis=1)), 'first': (lambda x: x[:, 0] * 2.0 + 0.1 * x[:, 1]), 'ties': (lambda x: np.sum(x, axis=1))}[it['decision']]
        dec.__name__ = 'custom'
        try:
            y = g.generate_labels(X, n=it['n'], p=it['p'], decision_function=(None if it.get('builtin') else dec), class_relation=it.get('builtin') or 'linear')
        except Exception as e:  # noqa: BLE001
            out.append({'error': repr(e)[:300]})
            continue
        if it.get('builtin') == 'linear':
            d = np.sum(2 * X + 3, axis=1)
        elif it.get('builtin') == 'nonlinear':
            d = np.sum(2 * np.sin(X) + 2 * np.cos(X), axis=1)
        else:
            d = dec(X)
        order = np.argsort(d, kind='stable')
        y = np.asarray(y).astype(int)
        # ties at the cut points: two different samples share a decision value (continuous decisions: none)
        ties = bool(len(np.unique(d)) < len(d))
        out.append({'sorted_y': y[order].tolist(), 'counts': [int(np.sum(y == k)) for k in range(it['n'])], 'ties': ties,
                    'info': g.dataset_info['labels']})
    return out


def op_gen_noise(job):
    out = []
    for it in job['items']:
        g = CategoricalClassification()
        X = g.generate_data(it['nf'], it['ns'], cardinality=it['card'], ensure_rep=True, seed=it['seed'])
        y = (np.sum(X, axis=1) > np.median(np.sum(X, axis=1))).astype(int) if it.get('classes', 2) == 2 else (np.sum(X, axis=1) % it['classes']).astype(int)
        if it.get('disjoint'):
            # per-feature domains that share no value ({0..}, {100..}, {200..}) and a label that follows feature 0, so that
            # some values of a feature occur under one class only
            X = X + 100 * np.arange(X.shape[1], dtype=X.dtype)[None, :]
            y = (X[:, 0] != X[:, 0].min()).astype(int) if it.get('classes', 2) == 2 else (X[:, 0] % it['classes']).astype(int)
        if len(np.unique(y)) < 2:
            y = (np.arange(it['ns']) % max(2, it.get('classes', 2))).astype(int)      # categorical noise needs a second class to draw from
        if it.get('labels') is not None:
            y = np.array([it['labels'][i % len(it['labels'])] for i in range(it['ns'])])
        Xin = X.astype(float) if it.get('float') else X          # the very array handed to the generator
        X = Xin
        X0 = Xin.copy()
        np.random.seed(it['seed'] + 1)
        try:
            if it['type'] == 'categorical':
                Xn = g.generate_noise(Xin, y, p=it['p'], type='categorical')
            else:
                Xn = g.generate_noise(Xin, y, p=it['p'], type='missing', missing_val=it['missing_val'])
        except Exception as e:  # noqa: BLE001
            out.append({'error': repr(e)[:300]})
            continue
        Xn = np.asarray(Xn)
        rec = {'budget': int(it['ns'] * it['p']), 'untouched': bool(np.array_equal(X, X0)), 'shape_ok': list(Xn.shape) == list(X0.shape)}
        if it['type'] == 'categorical':
            rec['changed'] = [int(np.sum(Xn[:, j] != X0[:, j])) for j in range(X0.shape[1])]
            rec['outside'] = [int(np.sum(~np.isin(Xn[:, j], np.unique(X0[:, j])))) for j in range(X0.shape[1])]
        else:
            mv = it['missing_val']
            rec['markers'] = [int(np.sum(Xn[:, j] == mv)) for j in range(X0.shape[1])]
            rec['other_changes'] = int(np.sum((Xn != X0) & (Xn != mv)))
        out.append(rec)
    return out


def op_gen_downsample(job):
    out = []
    for it in job['items']:
        g = CategoricalClassification()
        X = g.generate_data(it['nf'], it['ns'], cardinality=50, ensure_rep=False, seed=it['seed'])
        X[:, 0] = np.arange(it['ns'])                     # row identity
        rng = np.random.RandomState(it['seed'])
        y = rng.choice(it['classes'], size=it['ns'], p=it.get('pr'))
        try:
            Xd, yd = g.downsample_dataset(X, y, n=it.get('n'), seed=it['seed'], reshuffle=it.get('reshuffle', False))
        except Exception as e:  # noqa: BLE001
            out.append({'error': repr(e)[:300], 'min_count': int(min(np.bincount(y, minlength=it['classes'])))})
            continue
        per = it.get('n') or int(min(np.bincount(y, minlength=it['classes'])[np.unique(y)]))
        cls_of = {int(i): int(c) for i, c in zip(X[:, 0], y)}
        foreign = sum(1 for row, c in zip(np.asarray(Xd), np.asarray(yd)) if cls_of.get(int(row[0])) != int(c) or not np.array_equal(row, X[int(row[0])]))
        out.append({'per_class': per, 'counts': [int(np.sum(np.asarray(yd) == c)) for c in np.unique(y)], 'foreign': int(foreign),
                    'shape_ok': list(np.asarray(Xd).shape) == [per * len(np.unique(y)), X.shape[1]]})
    return out


OPS = {k[3:]: v for k, v in list(globals().items()) if k.startswith('op_')}
