"""C08 - streaming equals reference batch semantics with median aggregation."""
from __future__ import annotations

import csv
import json
import os
import random
import sys

sys.path.insert(0, os.path.dirname(os.path.dirname(os.path.abspath(__file__))))
from harness import engine as E
from harness import pipe_common as PC
from harness import stream_common as SC

PID = 'C08'
INVS = ['ConsumedPrefix', 'ConsumedExactly', 'BatchSizes', 'InvalidCounted', 'CheckpointIsMedianSoFar', 'FinalIsMedian', 'OutputAscending', 'OutputComplete']


def run_spec(V, label, c, emit=False, coverage=False):
    wd = E.workdir('c08')
    try:
        cfg = E.write_cfg(os.path.join(wd, 'mc.cfg'), constants=c, invariants=INVS + (['Emit'] if emit else []))
        res = E.run_tlc('Streaming', cfg, coverage=coverage, timeout=900)
        E.require_ok(res, label)
        V.add_tlc(res, label)
        V.tlc_violation(res, label)
        cases = []
        if emit:
            for t in E.extract_tuples(res.stdout, 'CASE'):
                cases.append({'file': list(t[1]), 'batches': [list(b) for b in t[2]], 'invalid': t[3]})
        return res, cases
    finally:
        E.cleanup(wd)


def consts(MB, SS, TM, ML, pairs='{1,2}', scores='{0,1,3}', scoring=True, ge=False):
    return {'MB': MB, 'SS': SS, 'TailMin': TM, 'MaxLines': ML, 'Pairs': pairs, 'Scores': scores, 'Scoring': 'TRUE' if scoring else 'FALSE', 'TailGE': 'TRUE' if ge else 'FALSE'}


def main():
    tier, seed, replay = E.tier_seed()
    V = E.Verdict(PID, tier, seed)
    rng = random.Random(seed * 160481183 + 8)
    V.coverage['rule'] = ('TLC: Streaming.tla exhaustively for small constants (every file of Good/Bad lines up to MaxLines, every row count around the batch and tail boundaries, '
                          'scores per batch and pair) with ConsumedExactly, InvalidCounted, CheckpointIsMedianSoFar, OutputAscending; every file of the tail-free configuration is '
                          'replayed literally through the real estimate_importances_minibatches (the code\'s tail threshold 2**10 exceeds the small batch sizes); full-scale runs '
                          '(minibatch 1100-4096, subsampling 1-7, row counts k*MB+{0,1,1023,1024,1025,MB-1}, malformed rows at random and at boundaries, Constant and scoring '
                          'heuristics, one CLI run) are recorded and validated event by event by TraceStreaming.tla with the real constants.  non-trivial = distinct files with at '
                          'least one malformed selected row or a partial tail')
    V.assumptions += ['scores enter traces as round(score*2^20); medians compared doubled with tolerance 2 units']

    # deviation control
    Vt = E.Verdict(PID, tier, seed)
    r, _ = run_spec(Vt, 'deviation', consts(3, 1, 1, 5, pairs='{1}', scores='{0}', ge=True))
    if r.violated != 'ConsumedExactly':
        raise E.MachineryError('deviation control TailGE did not violate ConsumedExactly')
    V.notes['deviation_control'] = 'TailGE=TRUE (tail used at >= TailMin) violates ConsumedExactly'

    grid = [(3, 1, 1, 8), (4, 2, 2, 13), (3, 3, 1, 12)] if tier == 'quick' else [(3, 1, 1, 9), (4, 1, 2, 10), (4, 2, 2, 14), (3, 3, 1, 15), (5, 2, 3, 16)]
    for MB, SS, TM, ML in grid:
        res, _ = run_spec(V, f'Streaming/MB{MB}-SS{SS}-T{TM}', consts(MB, SS, TM, ML), coverage=True)
        for a in ('ReadSkip', 'AcceptRow', 'RejectRow', 'ProcessBatch', 'CloseFile', 'TailBatch', 'DropTail', 'Aggregate'):
            if res.coverage.get(a, (0, 0))[0] == 0 and not (a == 'ReadSkip' and SS == 1):
                raise E.MachineryError(f'action {a} never taken for MB={MB} SS={SS}')
    run_spec(V, 'Streaming/Constant', consts(3, 2, 1, 10, scoring=False))
    # liveness: under weak fairness of the loop every run terminates and a full buffer is always processed; control: without
    # fairness the same property has a (stuttering) counterexample, so it is not vacuous
    wdl = E.workdir('c08l')
    try:
        cl = consts(3, 2, 1, 7 if tier == 'quick' else 10, pairs='{1}', scores='{0,1}')
        cfgl = E.write_cfg(os.path.join(wdl, 'live.cfg'), spec='FairSpec', constants=cl, properties=['Terminates', 'FullBufferProcessed'])
        rl = E.run_tlc('Streaming', cfgl, timeout=900)
        E.require_ok(rl, 'Streaming/liveness')
        V.add_tlc(rl, 'Streaming/liveness')
        V.tlc_violation(rl, 'Streaming/liveness')
        cfgn = E.write_cfg(os.path.join(wdl, 'nofair.cfg'), spec='Spec', constants=cl, properties=['Terminates'])
        rn = E.run_tlc('Streaming', cfgn, timeout=900)
        E.require_ok(rn, 'Streaming/liveness-control')
        if rn.ok:
            raise E.MachineryError('liveness control: Terminates holds without fairness (vacuous)')
        V.notes['liveness'] = 'FairSpec => Terminates, FullBufferProcessed (TLC); control: violated without fairness'
    finally:
        E.cleanup(wdl)

    observed_invalid = [0]
    # ---- binding A: tail-free configuration (TailMin >= MB, as in the code for small batches) replayed literally
    for MB, SS, ML in ([(2, 2, 9), (3, 1, 7)] if tier == 'quick' else [(2, 2, 11), (3, 1, 8), (2, 3, 12), (4, 1, 9)]):
        res, cases = run_spec(V, f'Streaming/replay-MB{MB}-SS{SS}', consts(MB, SS, MB, ML, pairs='{1}', scores='{0}'), emit=True)
        if not cases:
            raise E.MachineryError('no cases emitted')
        uniq = {}
        for c in cases:
            uniq[tuple(c['file'])] = c
        cases = list(uniq.values())
        jobs = []
        for c in cases:
            cols = ['id', 'f0', 'label']
            lines = ['id,f0,label\n']
            for p, kind in enumerate(c['file'], start=1):
                if kind == 'good':
                    lines.append(f'{p},{p % 3},{p % 2}\n')
                else:
                    lines.append([f'{p},1\n', f'{p},1,0,9\n', '\n', f'"{p},1",0\n'][p % 4])     # the last: 2 fields, but as many raw delimiters as a good row
            jobs.append({'op': 'run_stream', 'columns': cols, 'lines': lines, 'opts': {'log_parse': False},
                         'args': {'minibatch_size': MB, 'subsampling': SS, 'heuristic': 'Constant'}})
        got = PC.pipe_eval(jobs, modules=['pipe_ops'])
        nontriv = 0
        for c, job, r in zip(cases, jobs, got):
            key = f'file={"".join("G" if k == "good" else "B" for k in c["file"])} MB={MB} SS={SS}'
            if 'bad' in c['file']:
                nontriv += 1
            if r is None or 'ok' not in r:
                V.violation('raises:' + key, f'estimate_importances_minibatches failed: {PC.failure_text(r)}', job)
                continue
            ev = r['ok']['events']
            real_batches = [[int(i) if str(i).isdigit() else str(i) for i in e['ids']] for e in ev if e['e'] == 'batch']
            inv_events = [e['n'] for e in ev if e['e'] == 'invalid']
            real_invalid = sum(inv_events)
            observed_invalid[0] += len(inv_events)
            if real_batches != c['batches']:
                V.violation('batches:' + key, f'batches consumed {real_batches}, reference semantics {c["batches"]}', job)
            if real_invalid != c['invalid'] and (inv_events or observed_invalid[0] > 0):
                # (the count is observable only through the loop's log message; if no run ever shows one, it is not judged)
                V.violation('invalid:' + key, f'{real_invalid} invalid rows reported, {c["invalid"]} malformed selected rows in the file', job)
        V.count(evaluations=len(cases), nontrivial=nontriv, traces=len(cases))
        V.add_sample({'replayed_file': cases[len(cases) // 2]})

    # ---- binding B: full scale, real constants
    plan = []
    quick_plan = [(1100, 1, 2, 1024, 'MI-numba-randomized'), (1100, 2, 1, 1025, 'MI-numba-randomized'), (2000, 3, 1, 1023, 'Constant'),
                  (1100, 1, 1, 0, 'Constant'), (1100, 7, 1, 1, 'MI-numba-randomized'), (4096, 1, 1, 4095, 'Constant'), (1200, 1, 3, 1100, 'MI')]
    if tier == 'quick':
        plan = quick_plan
    else:
        plan = list(quick_plan)
        for MB in (1100, 2000, 4096):
            for SS in (1, 2, 3, 7):
                for extra in (0, 1, 1023, 1024, 1025, MB - 1):
                    plan.append((MB, SS, rng.choice([1, 2, 3]), extra, rng.choice(['Constant', 'MI-numba-randomized', 'Constant'])))
        plan = plan[:len(quick_plan)] + rng.sample(plan[len(quick_plan):], 50)
    jobs, meta = [], []
    for MB, SS, k, extra, heur in plan:
        ngood = k * MB + extra
        # enough lines so that the selected good rows number exactly ngood (bad rows do not count)
        bad_rate = rng.choice([0.0, 0.01, 0.05])
        nlines_guess = int(ngood * SS / (1 - bad_rate) * 1.08) + SS * 40
        boundary = {SS * MB, SS * MB + SS, SS * (MB - 1), SS} if rng.random() < 0.7 else set()
        cols, lines, kinds = SC.gen_file(rng, nlines_guess, bad_rate=bad_rate, bad_at=boundary)
        # trim so that exactly ngood good selected rows remain
        cnt, cut = 0, len(kinds)
        for p, kd in enumerate(kinds, start=1):
            if p % SS == 0 and kd == 'good':
                cnt += 1
                if cnt == ngood:
                    cut = p + rng.randrange(SS)      # a few unselected lines may follow
                    break
        cut = min(cut, len(kinds))
        if ngood == 0:
            cut = min(len(kinds), SS - 1) if SS > 1 else 0
        lines, kinds = lines[:cut + 1], kinds[:cut]
        jobs.append({'op': 'run_stream', 'columns': cols, 'lines': lines, 'opts': {},
                     'args': {'minibatch_size': MB, 'subsampling': SS, 'heuristic': heur, 'target_ranking_only': 'True'}})
        actual_good = sum(1 for p_, kd_ in enumerate(kinds, start=1) if p_ % SS == 0 and kd_ == 'good')
        meta.append((MB, SS, k, extra, heur, len(kinds), kinds, actual_good))
    # one gzip-compressed VW run (ob-vw) through the same loop (every namespace present: an absent namespace makes
    # compute_bounds_increment raise on the None cell - recorded as an observation in DESIGN.md, outside C08's quantifier)
    MBv, SSv, nv = 1100, 2, 2 * 1100 * 2 + 1030 * 2 + 1
    vw_lines = ['header-line-is-skipped\n']
    for p_ in range(1, nv + 1):
        ns2 = f' |BX xx{p_ % 7} yy{p_ % 3}' if p_ % 5 else ' |BX xx0'
        vw_lines.append(f'{p_ % 2} |AE id{p_}{ns2}\n')
    jobs.append({'op': 'run_stream', 'columns': ['label', 'id', 'f1'], 'lines': vw_lines, 'gzip': True, 'file_name': 'data.vw.gz', 'fw_map': {'AE': 'id', 'BX': 'f1'},
                 'opts': {'id_col': 1}, 'delimiter': None,
                 'args': {'minibatch_size': MBv, 'subsampling': SSv, 'heuristic': 'Constant', 'target_ranking_only': 'True', 'data_source': 'ob-vw'}})
    meta.append((MBv, SSv, 2, 1030, 'Constant', nv, ['good'] * nv, nv // SSv))
    # one tab-separated run (ob-raw-dump): cells may be empty anywhere, also in the last column - such rows are well-formed
    MBt, nt = 1100, 2 * 1100 + 1040
    tsv_lines = ['id\tf0\tf1\tlast\n']
    for p_ in range(1, nt + 1):
        tsv_lines.append(f'{p_}\t{"" if p_ % 6 == 0 else p_ % 3}\t{p_ % 5}\t{"" if p_ % 4 == 0 else p_ % 2}\n')
    jobs.append({'op': 'run_stream', 'columns': ['id', 'f0', 'f1', 'last'], 'lines': tsv_lines, 'opts': {}, 'delimiter': '\t',
                 'args': {'minibatch_size': MBt, 'subsampling': 1, 'heuristic': 'Constant', 'target_ranking_only': 'True', 'data_source': 'ob-raw-dump', 'label_column': 'last'}})
    meta.append((MBt, 1, 2, 1040, 'Constant', nt, ['good'] * nt, nt))
    # repeated data blocks [A, A, B, A, B]: a pair's score is bit-identical in several batches and different in others
    MBr = 1100
    colsr = ['id', 'f0', 'f1', 'f2', 'label']
    blocks = {}
    for name in 'AB':
        rows_ = []
        for _ in range(MBr):
            lab = rng.randrange(2)
            rows_.append([str((lab + (rng.random() < (0.1 if name == 'A' else 0.4))) % 2), str(rng.randrange(5)), str((lab * 2 + rng.randrange(3)) % 4), str(lab)])
        blocks[name] = rows_
    rep_lines = [','.join(colsr) + '\n']
    pos_ = 0
    for name in 'AABAB':
        for r_ in blocks[name]:
            pos_ += 1
            rep_lines.append(','.join([str(pos_)] + r_) + '\n')
    jobs.append({'op': 'run_stream', 'columns': colsr, 'lines': rep_lines, 'opts': {},
                 'args': {'minibatch_size': MBr, 'subsampling': 1, 'heuristic': 'MI-numba-randomized', 'target_ranking_only': 'False'}})
    meta.append((MBr, 1, 5, 0, 'MI-numba-randomized', pos_, ['good'] * pos_, pos_))
    got = PC.pipe_eval(jobs, modules=['pipe_ops'], procs=8)
    wd = E.workdir('c08t')
    try:
        for n, ((MB, SS, k, extra, heur, nl, kinds, actual_good), job, r) in enumerate(zip(meta, jobs, got)):
            key = f'fullscale:MB={MB} SS={SS} good_selected={k}*MB+{extra} lines={nl} heuristic={heur} seed={seed}'
            rep = {'MB': MB, 'SS': SS, 'k': k, 'extra': extra, 'heuristic': heur, 'seed': seed, 'plan_index': n}
            if r is None or 'ok' not in r:
                V.violation('raises:' + key, f'estimate_importances_minibatches failed: {PC.failure_text(r)}', rep)
                continue
            trace = SC.to_trace(r['ok']['events'], final=r['ok']['final'] or [], kinds=kinds, header_id=job['columns'][0] if job['columns'][0] == 'id' else None)
            res = SC.validate_stream(wd, trace, MB=MB, SS=SS, NCols=len(job['columns']), NLines=nl, scoring=(heur != 'Constant'), name=f't{n}')
            V.add_tlc(res, f'TraceStreaming/{n}')
            if not res.ok:
                idx, ev = SC.describe_rejection(trace, res)
                V.violation('trace-rejected:' + key, f'TraceStreaming rejects event #{idx} of {len(trace)}: {json.dumps(ev)[:400]}', rep)
            nb = len([e for e in trace if e['e'] == 'batch'])
            exp_nb = actual_good // MB + (1 if actual_good % MB > 1024 else 0)
            # the generated file knows which lines are well-formed (CSV field count = header): the parser must agree
            wrong = [e for e in trace if e['e'] == 'parse' and 1 <= e['pos'] <= len(kinds) and (e['nf'] == len(job['columns'])) != (kinds[e['pos'] - 1] == 'good')]
            if wrong:
                ln = job['lines'][wrong[0]['pos']] if wrong[0]['pos'] < len(job['lines']) else ''
                V.violation('malformed:' + key, f'{len(wrong)} rows classified against their CSV field count, e.g. line {wrong[0]["pos"]} {ln!r} ({"well-formed" if kinds[wrong[0]["pos"] - 1] == "good" else "malformed"}) parsed into {wrong[0]["nf"]} fields for {len(job["columns"])} columns', rep)
            elif nb != exp_nb and res.ok:
                V.violation('batches:' + key, f'{nb} batches consumed; the file has {actual_good} well-formed selected rows, i.e. {exp_nb} batches under the reference semantics', rep)
            V.count(evaluations=1, nontrivial=1 if ('bad' in kinds or extra) else 0, traces=1)
            if n == 0:
                V.add_sample({'fullscale_run': rep, 'events': len(trace), 'first_events': trace[:2], 'batches': nb})
                # negative controls on a recorded trace
                t2 = [dict(e) for e in trace]
                bi = next(i for i, e in enumerate(t2) if e['e'] == 'batch')
                t2[bi] = dict(t2[bi], ids=t2[bi]['ids'][:-1])
                if SC.validate_stream(wd, t2, MB=MB, SS=SS, NCols=len(job['columns']), NLines=nl, scoring=(heur != 'Constant'), name='neg1').ok:
                    raise E.MachineryError('negative control: batch with a missing row accepted')
                t3 = [dict(e) for e in trace]
                ci = next(i for i, e in enumerate(t3) if e['e'] == 'checkpoint')
                tab = [list(x) for x in t3[ci]['table']]
                tab[0][2] += 50
                t3[ci] = dict(t3[ci], table=tab)
                if SC.validate_stream(wd, t3, MB=MB, SS=SS, NCols=len(job['columns']), NLines=nl, scoring=(heur != 'Constant'), name='neg2').ok:
                    raise E.MachineryError('negative control: corrupted checkpoint accepted')
                V.notes['negative_controls'] = 'a batch event with one row removed and a checkpoint with one score +50 units are rejected'

        # ---- CLI run: pairwise_ranks.tsv and the checkpoint through the real entry point
        ncli = 2 if tier == 'quick' else 5
        for c in range(ncli):
            MB, SS = rng.choice([(1100, 1), (1300, 2), (2000, 1)]) if c != 1 else (1100, 2)
            extra = rng.choice([1025, 1024, 5])
            cols, lines, kinds = SC.gen_file(rng, (2 * MB + extra) * SS, bad_rate=0.01)
            label_name = 'label'
            if c == 1:
                # a quoted header line: the tool's column names keep the quotes (parse_csv_raw splits the raw header), the header is
                # still the header - skipped, never a data row
                lines[0] = ','.join(f'"{x}"' for x in cols) + '\n'
                label_name = '"label"'
            sub = os.path.join(wd, f'cli{c}')
            os.makedirs(os.path.join(sub, 'ds'))
            with open(os.path.join(sub, 'ds', 'data.csv'), 'w') as f:
                f.writelines(lines)
            evf = os.path.join(sub, 'events.json')
            heur = 'MI-numba-randomized'
            rc, err = PC.run_cli(dict(task='ranking', data_path='ds', data_source='csv-raw', minibatch_size=MB, subsampling=SS, heuristic=heur, num_threads=2,
                                      output_folder='out', label_column=label_name, include_cardinality_in_feature_names=rng.choice(['True', 'False'])), sub, events=evf, rec_opts={})
            key = f'cli:MB={MB} SS={SS} lines={len(kinds)} seed={seed}'
            if rc != 0 or not os.path.exists(evf):
                V.violation('cli-failed:' + key, f'ranking task exited {rc}: {err[-400:]}', {'MB': MB, 'SS': SS})
                continue
            events = json.load(open(evf))
            with open(os.path.join(sub, 'out', 'pairwise_ranks.tsv'), newline='') as f:
                rows = list(csv.reader(f, delimiter='\t'))[1:]
            written = [[SC.strip_annotation(a), SC.strip_annotation(b), int(round(float(s) * 2 ** 20))] for a, b, s in rows]
            # the returned aggregation is what the task wrote (no separate 'final' observation in a CLI run): final := written table
            trace = SC.to_trace(events, final=written, written=written, header_id=('"id"' if c == 1 else 'id'))
            res = SC.validate_stream(wd, trace, MB=MB, SS=SS, NCols=len(cols), NLines=len(kinds), scoring=True, name=f'cli{c}')
            V.add_tlc(res, f'TraceStreaming/cli{c}')
            if not res.ok:
                idx, ev = SC.describe_rejection(trace, res)
                V.violation('trace-rejected:' + key, f'TraceStreaming rejects event #{idx} of {len(trace)} of the CLI run: {json.dumps(ev)[:400]}', {'MB': MB, 'SS': SS, 'seed': seed})
            if os.path.exists(os.path.join(sub, 'ranking_checkpoint_tmp.tsv')):
                V.notes['checkpoint_file_after_cli'] = 'still present'
            V.count(evaluations=1, nontrivial=1, traces=1)
    finally:
        E.cleanup(wd)
    V.coverage['exhaustive'] = True
    return V.finish()


if __name__ == '__main__':
    try:
        sys.exit(main())
    except E.MachineryError as e:
        print(f'MACHINERY-FAILURE {PID}: {e}', file=sys.stderr)
        sys.exit(2)
    except Exception as e:  # unexpected harness error: machinery failure, never a verdict
        import traceback
        traceback.print_exc()
        print(f'MACHINERY-FAILURE {PID}: unexpected {type(e).__name__}: {e}', file=sys.stderr)
        sys.exit(2)
