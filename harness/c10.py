"""C10 - interaction features represent joint values faithfully."""
from __future__ import annotations

import os
import random
import sys

sys.path.insert(0, os.path.dirname(os.path.dirname(os.path.abspath(__file__))))
from harness import engine as E
from harness import pipe_common as PC

PID = 'C10'
INVS = ['KernelIsJointEquality', 'CandidatesAreCombinations', 'LeastFirst', 'Fair']

CHARMAPS = [{1: '1', 2: 'a'}, {1: '0', 2: '1'}, {1: 'é', 2: '1'}, {1: 'ab', 2: 'a'}, {1: '-', 2: ','}]
SEPARATORS = [':', ',', '|', ' ', '-', '\x00', ';', '\t', '\x1f', '_', '&', '1:', "', '"]


def consts(nfeat, nrows, values, order, cap, batches, concat=False):
    return {'NFeat': nfeat, 'NRows': nrows, 'Values': '<- ' + values, 'Order': order, 'Cap': cap, 'Batches': batches,
            'KeyByConcatenation': 'TRUE' if concat else 'FALSE'}


def run_spec(V, label, c, emit=True, coverage=False):
    wd = E.workdir('c10')
    try:
        cfg = E.write_cfg(os.path.join(wd, 'mc.cfg'), constants=c, invariants=INVS + (['Emit'] if emit else []))
        res = E.run_tlc('Interactions', cfg, coverage=coverage, timeout=1500)
        E.require_ok(res, label)
        V.add_tlc(res, label)
        V.tlc_violation(res, label)
        cases = []
        if emit:
            for t in E.extract_tuples(res.stdout, 'CASE'):
                _, frame, batch, sel, parts, cands, allparts = t
                cases.append({'frame': [[list(v) for v in E.fun_to_list(col)] for col in E.fun_to_list(frame)], 'batch': batch,
                              'sel': [list(s) for s in E.fun_to_list(sel)] if sel else [],
                              'parts': [E.fun_to_list(p) for p in E.fun_to_list(parts)] if parts else [],
                              'cands': [list(c_) for c_ in E.fun_to_list(cands)], 'allparts': [E.fun_to_list(p) for p in E.fun_to_list(allparts)]})
        return res, cases
    finally:
        E.cleanup(wd)


def canon(p):
    seen = {}
    return [seen.setdefault(v, len(seen)) for v in p]


def main():
    tier, seed, replay = E.tier_seed()
    V = E.Verdict(PID, tier, seed)
    rng = random.Random(seed * 49979687 + 10)
    V.coverage['rule'] = ('TLC enumerates every frame of NFeat string columns x NRows rows over an alphabet that is adversarial for concatenation '
                          '("", "1", "11", "a", "1a"), interaction order, cap and two consecutive batches (sampler counter persists); for each state the real '
                          'compute_combined_features is called on the frame (label column inserted at a seeded position, several character maps incl. unicode) and '
                          'the equality partition of every new column, its name, the selection and the untouched originals are compared with the spec; scores of the '
                          'hashed column and of the explicit tuple column are compared.  non-trivial = distinct (frame, batch) states where two rows differ in some '
                          'constituent but have equal concatenation, or any with >1 distinct joint value')
    V.assumptions += ['64-bit hash collisions are out of reach of the bounded space (not observed: partitions compared exactly)']

    # deviation control
    Vt = E.Verdict(PID, tier, seed)
    r, _ = run_spec(Vt, 'deviation', consts(2, 2, 'Digits', 2, 1, 1, concat=True), emit=False)
    if r.violated != 'KernelIsJointEquality':
        raise E.MachineryError('deviation control: KeyByConcatenation did not violate KernelIsJointEquality')
    V.notes['deviation_control'] = 'KeyByConcatenation=TRUE violates KernelIsJointEquality'

    if tier == 'quick':
        runs = [('order2-3x2', consts(3, 2, 'Adversarial', 2, 2, 2)), ('order3-3x3-digits', consts(3, 3, 'Digits', 3, 1, 1)),
                ('order2-2x3', consts(2, 3, 'Adversarial', 2, 5, 1)), ('order2-2x2-separators', consts(2, 2, 'Delims', 2, 5, 1))]
    else:
        runs = [('order2-3x2', consts(3, 2, 'Adversarial', 2, 2, 3)), ('order3-3x3-digits', consts(3, 3, 'Digits', 3, 1, 1)),
                ('order2-2x3', consts(2, 3, 'Adversarial', 2, 5, 1)), ('order2-4x2-digits', consts(4, 2, 'Digits', 2, 4, 3)),
                ('order4-4x2-digits', consts(4, 2, 'Digits', 4, 1, 1)), ('order3-4x2-digits', consts(4, 2, 'Digits', 3, 3, 2)),
                ('order2-2x2-separators', consts(2, 2, 'Delims', 2, 5, 1)), ('order3-3x2-separators', consts(3, 2, 'Delims', 3, 5, 1))]
    for label, c in runs:
        res, cases = run_spec(V, f'Interactions/{label}', c, coverage=(label == 'order2-3x2'))
        if not cases:
            raise E.MachineryError('no cases emitted')
        if res.coverage:
            for a in ('ChooseColumn', 'Sample', 'Construct'):
                if res.coverage.get(a, (0, 0))[0] == 0:
                    raise E.MachineryError(f'action {a} never taken')
        # group the per-batch states of one frame into one job (batches run consecutively)
        byframe = {}
        for cs in cases:
            byframe.setdefault(repr(cs['frame']), {})[cs['batch']] = cs
        jobs, meta = [], []
        variants = []
        for key, bb in byframe.items():
            nb = max(bb)
            if set(bb) != set(range(1, nb + 1)):
                raise E.MachineryError('missing batch state')
            if 'separators' in label:
                # every candidate separator character takes the place of character 3
                for sep in SEPARATORS:
                    variants.append((bb, nb, {1: 'a', 2: 'b', 3: sep}))
            else:
                variants.append((bb, nb, CHARMAPS[rng.randrange(len(CHARMAPS))] if rng.random() < 0.5 else CHARMAPS[0]))
        for bb, nb, cmap in variants:
            frame = bb[1]['frame']
            nfeat, nrows = len(frame), len(frame[0])
            names = [f'f{i + 1}' for i in range(nfeat)]
            cols = list(names)
            lpos = rng.randrange(nfeat + 1)
            cols.insert(lpos, 'label')
            fr = {n: [''.join(cmap[ch] for ch in v) for v in frame[i]] for i, n in enumerate(names)}
            fr['label'] = [str(r % 2) for r in range(nrows)]
            jobs.append({'op': 'combined_features', 'columns': cols, 'frame': fr, 'label': 'label', 'batches': nb, 'score': True,
                         'args': {'interaction_order': c['Order'], 'combination_number_upper_bound': c['Cap'], 'label_column': 'label'}})
            meta.append((bb, names, cmap))
        got = PC.pipe_eval(jobs)
        nontriv = 0
        drift_sel = [0]
        for job, (bb, names, cmap), r in zip(jobs, meta, got):
            fkey = f'frame={ {n: job["frame"][n] for n in names} } order={c["Order"]} cap={c["Cap"]}'
            if r is None or 'ok' not in r:
                kind = 'raises:' + (r or {}).get('type', 'crash')
                V.violation(f'{kind}:{fkey}', f'compute_combined_features failed: {PC.failure_text(r)}', job)
                continue
            counts = {}
            for b, ob in enumerate(r['ok'], start=1):
                cs = bb[b]
                key = f'{fkey} batch={b}'
                valid = {' AND '.join(names[i - 1] for i in cmb): (tuple(cmb), part) for cmb, part in zip(cs['cands'], cs['allparts'])}
                exp_names = [' AND '.join(names[i - 1] for i in s_) for s_ in cs['sel']]
                if len({tuple(p) for p in cs['parts']}) > 0 and any(len(set(p)) > 1 for p in cs['parts']):
                    nontriv += 1
                # property level: names = constituents joined by " AND " for combinations of the non-label columns; exactly
                # min(cap, #candidates) distinct ones, least evaluated first (ties in any way; the order of the new columns is free)
                cap_, ncand = job['args']['combination_number_upper_bound'], len(valid)
                if any(nm_ not in valid for nm_ in ob['new']) or len(set(ob['new'])) != len(ob['new']):
                    V.violation('names:' + key, f'new columns {ob["new"]}: not distinct order-{c["Order"]} combinations of the non-label columns joined by " AND " (valid: {sorted(valid)})', job)
                    break
                if len(ob['new']) != min(cap_, ncand):
                    V.violation('count:' + key, f'{len(ob["new"])} interaction features constructed, cap={cap_}, candidates={ncand}', job)
                    break
                for nm_ in valid:
                    counts.setdefault(nm_, 0)
                if any(counts[a_] > counts[u_] for a_ in ob['new'] for u_ in valid if u_ not in ob['new']):
                    V.violation('least-first:' + key, f'constructed {ob["new"]} although less-evaluated candidates exist (counts before {counts})', job)
                    break
                for nm_ in ob['new']:
                    counts[nm_] += 1
                if ob['new'] != exp_names:
                    drift_sel[0] += 1
                if not ob['untouched']:
                    V.violation('originals:' + key, 'original columns/values/dtypes/row order changed', job)
                for nm in ob['new']:
                    part = valid[nm][1]
                    if canon(ob['parts'][nm]) != canon(part):
                        V.violation(f'kernel:{key} feature={nm}', f'rows grouped as {canon(ob["parts"][nm])} by the interaction feature, joint values group them as {canon(part)}', job)
                    for (sh, st), flag in zip(ob['scores'].get(nm, []), (False, True)):
                        if abs(sh - st) > 1e-6:
                            V.violation(f'score:{key} feature={nm} corrected={flag}', f'score of interaction feature {sh!r} != score of explicit tuple {st!r}', job)
        V.count(evaluations=len(cases), nontrivial=nontriv, traces=len(cases))
        V.notes[f'{label}_selection_order_drift'] = drift_sel[0]
        V.add_sample({'run': label, 'job': {k: jobs[len(jobs) // 2][k] for k in ('columns', 'frame', 'args')}, 'real': got[len(jobs) // 2].get('ok') if got[len(jobs) // 2] else None})
    # ---- the batch path (compute_batch_ranking builds the interactions of a mini-batch): values that are missing-value symbols
    # ('', '{}') are values like any other for the interaction feature
    import itertools
    bj_items = []
    for miss in (',{}', 'NA,{}', ','):
        va = ['', '{}', 'x', 'NA']
        rows = [[a_, b_, str((i_ + j_) % 2)] for i_, a_ in enumerate(va) for j_, b_ in enumerate(['0', '3', ''])]
        rng.shuffle(rows)
        bj_items.append({'columns': ['a', 'b', 'label'], 'rows': rows,
                         'args': {'heuristic': 'MI-numba-randomized', 'label_column': 'label', 'interaction_order': 2, 'missing_value_symbols': miss, 'combination_number_upper_bound': 10 ** 6}})
    # long values (ids, urls: 10..100+ characters) that are prefixes / suffixes of one string: every way of cutting one string
    # in two gives the same concatenation, so only a faithful representation of the PAIR keeps the rows apart
    for s_ in ('123456789012', '1' * 25, 'http://example.org/a/b?id=1234567890&x=' + 'ab' * 40):
        rows = [[s_[:k_], s_[k_:], str(k_ % 2)] for k_ in range(len(s_) + 1)]
        rows += [[s_[:1], s_[1:], '1'], [s_, s_, '0']]
        rng.shuffle(rows)
        bj_items.append({'columns': ['a', 'b', 'label'], 'rows': rows,
                         'args': {'heuristic': 'MI-numba-randomized', 'label_column': 'label', 'interaction_order': 2, 'missing_value_symbols': ',{}', 'combination_number_upper_bound': 10 ** 6}})
    br = PC.pipe_eval([{'op': 'batch_features', 'items': bj_items}], modules=['pipe_ops'])[0]
    if br is None or 'ok' not in br:
        V.violation('raises:batch-path', f'compute_batch_ranking failed: {PC.failure_text(br)}', {'items': bj_items[:1]})
    else:
        for it_, ob_ in zip(bj_items, br['ok']):
            key = f'batch-path rows={it_["rows"]} missing_value_symbols={it_["args"]["missing_value_symbols"]!r}'
            if 'error' in ob_ or 'a AND b' not in ob_.get('values', {}):
                V.violation('raises:' + key, f'no interaction column: {ob_.get("error") or ob_.get("columns")}', it_)
                continue
            tup = [(r_[0], r_[1]) for r_ in it_['rows']]
            if canon(ob_['values']['a AND b']) != canon(tup):
                V.violation(f'kernel:{key} feature=a AND b', f'rows grouped as {canon(ob_["values"]["a AND b"])} by the interaction feature, joint values group them as {canon(tup)}', it_)
        V.count(evaluations=len(bj_items), nontrivial=len(bj_items), traces=len(bj_items))

    # ---- frames whose row index is not 0..n-1 (shuffled / filtered / sorted rows): the interaction is a function of the ROW
    ij = [{'op': 'combined_indexed', 'columns': ['a', 'label', 'b', 'c'], 'rows': 40, 'seed': seed * 13 + k_, 'values': ['', '1', '11', 'a', '1a', 'é'],
           'args': {'interaction_order': o_, 'label_column': 'label', 'combination_number_upper_bound': 10 ** 6}} for k_, o_ in enumerate((2, 3))]
    for job, r in zip(ij, PC.pipe_eval(ij)):
        if r is None or 'ok' not in r:
            V.violation(f'raises:row-index order={job["args"]["interaction_order"]}', f'compute_combined_features failed on a frame with a non-default index: {PC.failure_text(r)}', job)
            continue
        for shape, rec in r['ok'].items():
            key = f'row-index={shape} order={job["args"]["interaction_order"]} seed={job["seed"]}'
            if rec['nrows_out'] != rec['nrows_in'] or not rec['untouched']:
                V.violation('originals:' + key, f'{rec["nrows_in"]} rows in, {rec["nrows_out"]} rows out; original columns unchanged: {rec["untouched"]}', job)
                continue
            if not rec['new']:
                raise E.MachineryError('no interaction column built for ' + key)
            for cn, (pa, pt) in rec['parts'].items():
                if pa != pt:
                    V.violation(f'kernel:{key} feature={cn}', f'rows grouped as {pa[:12]}.. by the interaction feature, joint values group them as {pt[:12]}..', job)
                    break
        V.count(evaluations=4, nontrivial=3, traces=4)

    # ---- many distinct joint values: the feature must separate all of them (only 64-bit hash collisions are allowed;
    # at 3*10^5 tuples a 64-bit collision has probability ~2.5e-9, a 32-bit digest collides ~10 times)
    rows_l = 300000 if tier == 'quick' else 700000
    lj = [{'op': 'combined_large', 'rows': rows_l, 'seed': seed * 7 + k_, 'args': {'interaction_order': o_, 'label_column': 'label', 'combination_number_upper_bound': 10 ** 6}}
          for k_, o_ in enumerate((2,) if tier == 'quick' else (2, 3))]
    for job, r in zip(lj, PC.pipe_eval(lj)):
        key = f'large-frame rows={job["rows"]} order={job["args"]["interaction_order"]} seed={job["seed"]}'
        if r is None or 'ok' not in r:
            V.violation('raises:' + key, f'compute_combined_features failed: {PC.failure_text(r)}', job)
            continue
        for c, (nv, nt) in r['ok'].items():
            if nv != nt:
                V.violation(f'kernel:{key} feature={c}', f'{nt} distinct value tuples but {nv} distinct values of the interaction feature: rows that differ on a constituent share a value', job)
        V.count(evaluations=len(r['ok']), nontrivial=len(r['ok']), traces=1)
    V.coverage['exhaustive'] = True
    return V.finish()


if __name__ == '__main__':
    try:
        sys.exit(main())
    except E.MachineryError as e:
        print(f'MACHINERY-FAILURE {PID}: {e}', file=sys.stderr)
        sys.exit(2)
    except Exception as e:  # unexpected harness error: machinery failure, never a verdict
        import traceback
        traceback.print_exc()
        print(f'MACHINERY-FAILURE {PID}: unexpected {type(e).__name__}: {e}', file=sys.stderr)
        sys.exit(2)
