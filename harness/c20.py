"""C20 - derived synthetic structure (correlation, labels, noise, ...) is as declared."""
from __future__ import annotations

import json
import os
import random
import sys

sys.path.insert(0, os.path.dirname(os.path.dirname(os.path.abspath(__file__))))
from harness import engine as E
from harness import pipe_common as PC
from harness.c19 import validate

PID = 'C20'


def main():
    tier, seed, replay = E.tier_seed()
    V = E.Verdict(PID, tier, seed)
    rng = random.Random(seed * 353868019 + 20)
    V.coverage['rule'] = ('TLC: Generators.tla (part "info") - every sequence of <= 2 (thorough 3) derived-structure calls (correlate / duplicate / combine) over every selection of 1-2 of 3 '
                          'source columns: InfoListsExactlyAddedColumns, ColumnsAccounted.  Every sequence is replayed on the real generator: appended column count, the '
                          'self-description record of every call, duplicates = exact copies, combinations = the stated function, Pearson correlation of every generated column with its '
                          'source.  Seeded calls of generate_labels (2-5 classes, float / list distributions, built-in and custom continuous decision functions, a tie-heavy one), '
                          'generate_noise (categorical / missing, several levels), downsample_dataset are measured and validated by TraceGenerators.tla.  '
                          'non-trivial = distinct call sequences of length >= 2 + seeded calls')
    V.assumptions += ['Pearson correlation and percentiles are computed by numpy in the harness (leaves outside TLC); correlation tolerance 2e-6',
                      'class proportions are judged only for tie-free decision values (precondition of the statement)']
    wd = E.workdir('c20')
    try:
        Vt = E.Verdict(PID, tier, seed)
        cfg = E.write_cfg(os.path.join(wd, 'dev.cfg'), constants={'Part': '"info"', 'NFeatures': 3, 'MaxEntries': 1, 'AttrKinds': '{"card"}', 'NSource': 3, 'MaxCalls': 1, 'DupInfoOneShort': 'TRUE'},
                          invariants=['InfoListsExactlyAddedColumns'])
        if E.run_tlc('Generators', cfg, timeout=300).violated != 'InfoListsExactlyAddedColumns':
            raise E.MachineryError('deviation control DupInfoOneShort did not violate InfoListsExactlyAddedColumns')
        V.notes['deviation_control'] = 'DupInfoOneShort=TRUE violates InfoListsExactlyAddedColumns'
        cfg = E.write_cfg(os.path.join(wd, 'mc.cfg'), constants={'Part': '"info"', 'NFeatures': 3, 'MaxEntries': 1, 'AttrKinds': '{"card"}', 'NSource': 3,
                                                                  'MaxCalls': 2 if tier == 'quick' else 3, 'DupInfoOneShort': 'FALSE'},
                          invariants=['InfoListsExactlyAddedColumns', 'ColumnsAccounted', 'EmitInfo'])
        res = E.run_tlc('Generators', cfg, timeout=1200)
        E.require_ok(res, 'Generators/info')
        V.add_tlc(res, 'Generators/info')
        V.tlc_violation(res, 'Generators/info')
        cases = [([dict(c) for c in t[1]], t[2]) for t in E.extract_tuples(res.stdout, 'INFO')]
        if not cases:
            raise E.MachineryError('no call sequences emitted')
        if tier == 'quick' and len(cases) > 700:
            cases = rng.sample(cases, 700)
        items = []
        for info, ncols in cases:
            calls = []
            for c in info:
                call = {'op': c['op'], 'sel': list(c['sel'])}
                if c['op'] == 'correlate':
                    call['r'] = rng.choice([0.8, -0.3, 0.5, -0.95, 0.0, 0.123])
                if c['op'] == 'combine':
                    call['kind'] = rng.choice(['linear', 'nonlinear'] + (['xor', 'and', 'or'] if len(c['sel']) >= 2 else []))
                if len(c['sel']) == 1 and c['op'] != 'combine':
                    call['as_list'] = rng.random() < 0.5
                calls.append(call)
            items.append({'nsource': 3, 'nsamples': rng.choice([30, 200]), 'seed': rng.randrange(10 ** 6), 'calls': calls,
                          'low': rng.choice([0, 0, 2 ** 30, -(2 ** 30) - 10, 2 ** 20])})       # value domains near the 32-bit range: sums of sources leave it
        # beyond the model's selections (1-2 of the 3 sources): a combination over a source, another source and a DUPLICATE of the
        # first (two identical vectors in one selection), for every combination function
        for kind_x in ('xor', 'and', 'or', 'linear'):
            for rep_x in range(2):
                cases.append(([{'op': 'duplicate', 'sel': (0,), 'cols': (3,)}, {'op': 'combine', 'sel': (0, 1, 3), 'cols': (4,)}], 5))
                items.append({'nsource': 3, 'nsamples': 60, 'seed': rng.randrange(10 ** 6), 'low': rng.choice([0, 5]),
                              'calls': [{'op': 'duplicate', 'sel': [0], 'as_list': True}, {'op': 'combine', 'sel': [0, 1, 3], 'kind': kind_x}]})
        got = PC.pipe_eval([{'op': 'gen_calls', 'items': items[i:i + 100]} for i in range(0, len(items), 100)], modules=['gen_ops'])
        flat = []
        for r in got:
            if not r or 'ok' not in r:
                raise E.MachineryError('gen_calls failed: ' + PC.failure_text(r))
            flat += r['ok']
        recs, rkeys = [], []
        for (info, ncols), it, ob in zip(cases, items, flat):
            key = f'calls={json.dumps(it["calls"])} seed={it["seed"]} n={it["nsamples"]}'
            if 'error' in ob:
                V.violation('raises:' + key, ob['error'], it)
                continue
            if ob['ncols'] != ncols:
                V.violation('columns:' + key, f'{ob["ncols"]} columns after the calls, {ncols} expected', it)
                continue
            for k, (spec_c, st, call) in enumerate(zip(info, ob['steps'], it['calls'])):
                exp_cols = list(spec_c['cols'])
                if st['info_cols'] != exp_cols:
                    V.violation(f'self-description:{spec_c["op"]}:{key}', f'call {k + 1} ({spec_c["op"]} of {list(spec_c["sel"])}) added columns {exp_cols} but the generator\'s self-description lists {st["info_cols"]}', it)
                    break
                if st['info_sel'] != list(spec_c['sel']):
                    V.violation(f'self-description-sources:{key}', f'recorded sources {st["info_sel"]} != {list(spec_c["sel"])}', it)
                    break
                if spec_c['op'] == 'correlate':
                    obs = [o for o in st['obs'] if o is not None]
                    recs.append({'kind': 'corr', 'r1e6': int(round(call['r'] * 1e6)), 'obs1e6': [int(round(o * 1e6)) for o in obs]})
                    rkeys.append((f'correlation:{key} call={k + 1} r={call["r"]}', it, st))
                elif spec_c['op'] == 'duplicate':
                    recs.append({'kind': 'dup', 'equal': st['equal']})
                    rkeys.append((f'duplicate:{key} call={k + 1}', it, st))
                else:
                    recs.append({'kind': 'comb', 'equal': st['equal']})
                    rkeys.append((f'combination:{key} call={k + 1} kind={call["kind"]}', it, st))
        V.count(evaluations=len(cases), nontrivial=sum(1 for i_, _ in cases if len(i_) >= 2), traces=len(cases))
        V.add_sample({'calls': items[len(items) // 2]['calls'], 'real_steps': flat[len(items) // 2].get('steps')})

        # ---- seeded: labels / noise / missing / downsample / constant-source correlation
        litems = []
        for n_cls, p in ((2, 0.5), (2, 0.3), (2, 0.9), (2, [0.25, 0.75]), (3, 0.5), (4, None), (3, [0.2, 0.3, 0.5]), (5, [0.1, 0.2, 0.3, 0.2, 0.2]), (4, [0.4, 0.1, 0.1, 0.4])):
            for dec in ('sum', 'first', 'ties'):
                for ns in ((200, 1001) if tier == 'quick' else (50, 200, 1001, 5000)):
                    litems.append({'n': n_cls, 'p': p if p is not None else 0.5, 'decision': dec, 'nsamples': ns, 'seed': rng.randrange(10 ** 6)})
            litems.append({'n': n_cls, 'p': p if p is not None else 0.5, 'decision': 'sum', 'builtin': 'linear', 'nsamples': 500, 'seed': rng.randrange(10 ** 6)})
            litems.append({'n': n_cls, 'p': p if p is not None else 0.5, 'decision': 'sum', 'builtin': 'nonlinear', 'nsamples': 500, 'seed': rng.randrange(10 ** 6)})
        lg = PC.pipe_eval([{'op': 'gen_labels', 'items': litems}], modules=['gen_ops'])[0]
        if not lg or 'ok' not in lg:
            raise E.MachineryError('gen_labels failed: ' + PC.failure_text(lg))
        for it, ob in zip(litems, lg['ok']):
            key = f'labels:n={it["n"]} p={it["p"]} decision={it.get("builtin") or it["decision"]} samples={it["nsamples"]} seed={it["seed"]}'
            if 'error' in ob:
                V.violation('raises:' + key, ob['error'], it)
                continue
            n_cls, p = it['n'], it['p']
            if n_cls == 2:
                p0 = p[0] if isinstance(p, list) else p
                want = [p0, 1 - p0]
            elif isinstance(p, list):
                want = list(p[:-1]) + [1 - sum(p[:-1])]
            else:
                want = [1.0 / n_cls] * n_cls
            recs.append({'kind': 'label', 'n': n_cls, 'sorted_y': ob['sorted_y'], 'counts': ob['counts'], 'want1e6': [int(round(w * 1e4)) for w in want], 'ties': ob['ties']})
            rkeys.append((key, it, {'counts': ob['counts'], 'want': want, 'ties': ob['ties']}))
        nitems = []
        for p in (0.0, 0.1, 0.2, 0.5, 0.99):
            for ns in (10, 57, 200):
                nitems.append({'type': 'categorical', 'p': p, 'ns': ns, 'nf': 3, 'card': 4, 'classes': rng.choice([2, 3]), 'seed': rng.randrange(10 ** 6)})
                nitems.append({'type': 'missing', 'p': p, 'ns': ns, 'nf': 3, 'card': 4, 'missing_val': -1, 'seed': rng.randrange(10 ** 6)})
                nitems.append({'type': 'missing', 'p': p, 'ns': ns, 'nf': 2, 'card': 5, 'missing_val': float('-inf'), 'float': True, 'seed': rng.randrange(10 ** 6)})
        for ns_, cl_ in ((30, 2), (57, 3), (200, 2), (200, 3)):
            nitems.append({'type': 'categorical', 'p': 0.3, 'ns': ns_, 'nf': 3, 'card': rng.choice([3, 4, 5]), 'classes': cl_, 'disjoint': True, 'seed': rng.randrange(10 ** 6)})
        # label sets that are not 0..k-1 (a class absent / arbitrary label values)
        nitems.append({'type': 'categorical', 'p': 0.2, 'ns': 40, 'nf': 3, 'card': 4, 'classes': 3, 'labels': [0, 2, 2, 0], 'seed': 4242})
        nitems.append({'type': 'categorical', 'p': 0.2, 'ns': 40, 'nf': 3, 'card': 4, 'classes': 3, 'labels': [5, 9], 'seed': 4243})
        ng = PC.pipe_eval([{'op': 'gen_noise', 'items': nitems}], modules=['gen_ops'])[0]
        if not ng or 'ok' not in ng:
            raise E.MachineryError('gen_noise failed: ' + PC.failure_text(ng))
        for it, ob in zip(nitems, ng['ok']):
            key = f'noise:type={it["type"]} p={it["p"]} samples={it["ns"]} seed={it["seed"]}'
            if 'error' in ob:
                V.violation('raises:' + key, ob['error'], it)
                continue
            if it['type'] == 'categorical':
                recs.append({'kind': 'noise', 'budget': ob['budget'], 'changed': ob['changed'], 'outside': ob['outside'], 'untouched': ob['untouched'] and ob['shape_ok']})
            else:
                recs.append({'kind': 'missing', 'budget': ob['budget'], 'markers': ob['markers'], 'other_changes': ob['other_changes'], 'untouched': ob['untouched'] and ob['shape_ok']})
            rkeys.append((key, it, ob))
        ditems = []
        for cls in (2, 3, 4):
            for n in (None, 1, 5):
                ditems.append({'nf': 3, 'ns': 120, 'classes': cls, 'n': n, 'seed': rng.randrange(10 ** 6), 'reshuffle': rng.random() < 0.5,
                               'pr': [0.6] + [0.4 / (cls - 1)] * (cls - 1)})
        dg = PC.pipe_eval([{'op': 'gen_downsample', 'items': ditems}], modules=['gen_ops'])[0]
        if not dg or 'ok' not in dg:
            raise E.MachineryError('gen_downsample failed: ' + PC.failure_text(dg))
        for it, ob in zip(ditems, dg['ok']):
            key = f'downsample:classes={it["classes"]} n={it["n"]} seed={it["seed"]}'
            if 'error' in ob:
                V.violation('raises:' + key, ob['error'], it)
                continue
            recs.append({'kind': 'down', 'per_class': ob['per_class'], 'counts': ob['counts'], 'foreign': ob['foreign'], 'shape_ok': ob['shape_ok']})
            rkeys.append((key, it, ob))

        res = validate(wd, recs, 'derived')
        V.add_tlc(res, 'TraceGenerators/derived')
        rest_r, rest_k = recs, rkeys
        guard = 0
        while not res.ok and guard < 12:
            guard += 1
            i = res.depth - 1
            if not 0 <= i < len(rest_r):
                break
            key, it, ob = rest_k[i]
            V.violation(key, f'TraceGenerators rejects the measured result {json.dumps(ob)[:400]}', it)
            rest_r, rest_k = rest_r[i + 1:], rest_k[i + 1:]
            if not rest_r:
                break
            res = validate(wd, rest_r, 'derived')
        V.count(evaluations=len(recs), nontrivial=len(recs), traces=len(recs))
        bad = {'kind': 'corr', 'r1e6': 800000, 'obs1e6': [800010]}
        if validate(wd, [bad], 'neg').ok:
            raise E.MachineryError('negative control: wrong correlation accepted')
        V.notes['negative_control'] = 'TraceGenerators rejects an observed correlation 1e-5 away from r'
    finally:
        E.cleanup(wd)
    V.coverage['exhaustive'] = True
    return V.finish()


if __name__ == '__main__':
    try:
        sys.exit(main())
    except E.MachineryError as e:
        print(f'MACHINERY-FAILURE {PID}: {e}', file=sys.stderr)
        sys.exit(2)
    except Exception as e:  # unexpected harness error: machinery failure, never a verdict
        import traceback
        traceback.print_exc()
        print(f'MACHINERY-FAILURE {PID}: unexpected {type(e).__name__}: {e}', file=sys.stderr)
        sys.exit(2)
