"""Shared by C08/C13: generated CSV files whose rows carry their own position, conversion of
recorder events into TraceStreaming events, trace validation."""
from __future__ import annotations

import json
import os
import re

from harness import engine as E


def gen_file(rng, nlines, *, bad_rate=0.0, bad_at=(), nfeat=3, card=(2, 5, 9)):
    """header + nlines data lines; first field = 1-based position.  Returns (columns, lines, kinds)."""
    cols = ['id'] + [f'f{i}' for i in range(nfeat)] + ['label']
    lines = [','.join(cols) + '\n']
    kinds = []
    for p in range(1, nlines + 1):
        bad = p in bad_at or (bad_rate and rng.random() < bad_rate)
        lab = rng.randrange(2)
        feats = [str((lab + rng.randrange(card[i % len(card)])) % card[i % len(card)]) for i in range(nfeat)]
        if not bad:
            if rng.random() < 0.03:
                # non-ASCII text: OutRank reads csv files as latin-1, so a UTF-8 'Å' arrives as 'Ã' + U+0085; together with the
                # form feed / file separator these are characters str.splitlines() cuts at although they do not end a line of a file
                feats[0] = rng.choice(['Å', '\x0c', '\x1c', 'é']) + feats[0]
            if nfeat >= 2 and rng.random() < 0.03:
                # a well-formed row whose quoted cell holds the delimiter (more raw delimiters than fields)
                lines.append(','.join([str(p), f'"{feats[0]},{feats[0]}"'] + feats[1:] + [str(lab)]) + '\n')
            else:
                lines.append(','.join([str(p)] + feats + [str(lab)]) + '\n')
            kinds.append('good')
        else:
            k = rng.randrange(6 if nfeat >= 2 else 4)
            if k == 0:
                lines.append(','.join([str(p)] + feats[:-1]) + '\n')            # too few fields
            elif k == 1:
                lines.append(','.join([str(p)] + feats + [str(lab), 'extra']) + '\n')   # too many
            elif k == 2:
                lines.append('\n')                                               # empty line
            elif k == 5:
                lines.append(','.join([str(p)] + feats + [str(lab), '']) + '\n')        # one field too many, the extra one empty
            elif k == 4:
                # too few fields, but as many raw delimiters as a well-formed row (a quoted cell holds one)
                lines.append(','.join([str(p), f'"{feats[0]},{feats[1]}"'] + feats[2:] + [str(lab)]) + '\n')
            else:
                lines.append(f'{p},"a,b"\n')                                    # quoted, too few
            kinds.append('bad')
    return cols, lines, kinds


_ANN = re.compile(r'-\(\d+; \d+\)$')


def strip_annotation(name):
    return _ANN.sub('', name)


def to_trace(events, final=None, written=None, kinds=None, header_id=None):
    """kinds: the generated file's own knowledge of each data line ('good' = as many CSV fields as the header): carried in
    the parse events as wf = 1 / 0 (-1 = unknown) so that TraceStreaming judges the parser's verdict too."""
    out = []
    for e in events:
        if e['e'] == 'parse':
            pid = e.get('id')
            if header_id is not None and pid == header_id:
                continue          # the header line handed to the parser (a probe, or - if it is consumed as data - visible in the batch ids)
            pos = int(pid) if isinstance(pid, str) and pid.isdigit() else -1
            wf = -1 if kinds is None or not (1 <= pos <= len(kinds)) else (1 if kinds[pos - 1] == 'good' else 0)
            out.append({'e': 'parse', 'nf': e['nf'], 'pos': pos, 'wf': wf})
        elif e['e'] == 'batch':
            out.append({'e': 'batch', 'k': e['k'], 'ids': [int(i) if str(i).isdigit() else -1 for i in e['ids']], 'trip': [[t[0], t[1], t[2]] for t in (e['trip'] or [])]})
        elif e['e'] == 'checkpoint':
            out.append({'e': 'checkpoint', 'k': e['k'], 'table': e['table'] or []})
        elif e['e'] == 'invalid':
            out.append({'e': 'invalid', 'n': e['n']})
    if final is not None:
        out.append({'e': 'final', 'table': [[t[0], t[1], t[2]] for t in final]})
    if written is not None:
        out.append({'e': 'written', 'rows': written})
    return out


def validate_stream(wd, trace, *, MB, SS, NCols, NLines, scoring=True, tailmin=1024, name='t'):
    tf = os.path.join(wd, name + '.ndjson')
    with open(tf, 'w') as f:
        for ev in trace:
            f.write(json.dumps(ev) + '\n')
    cfg = E.write_cfg(os.path.join(wd, name + '.cfg'), spec='Spec', invariants=['BatchInvariant'], postcondition='Accepted',
                      constants={'MB': MB, 'SS': SS, 'TailMin': tailmin, 'NCols': NCols, 'NLines': NLines, 'Scoring': 'TRUE' if scoring else 'FALSE'})
    res = E.run_tlc('TraceStreaming', cfg, workers=1, env={'TRACE_FILE': tf}, timeout=1200)
    E.require_ok(res, 'TraceStreaming/' + name)
    return res


def describe_rejection(trace, res):
    """The first event TLC could not match (depth = consumed events + 1)."""
    k = res.depth - 1
    if 0 <= k < len(trace):
        ev = dict(trace[k])
        for f in ('ids', 'trip', 'table', 'rows'):
            if f in ev and isinstance(ev[f], list) and len(ev[f]) > 8:
                ev[f] = ev[f][:4] + ['...'] + ev[f][-2:]
        return k, ev
    return k, None
