"""C13 - data-quality statistics are exact and independent of the batch split."""
from __future__ import annotations

import concurrent.futures as cf
import csv
import json
import os
import random
import re
import sys

sys.path.insert(0, os.path.dirname(os.path.dirname(os.path.abspath(__file__))))
from harness import engine as E
from harness import pipe_common as PC

PID = 'C13'
INVS = ['CardinalityExact', 'HistogramExact', 'HistogramNeverOver', 'RareReportExact', 'CoverageIsPerBatch', 'MeanIsPooledForEqualBatches']


def consts(cols, values, missing, maxrows, thr, bound, rare=True, dev=False):
    return dict(Cols=cols, Values=values, EmptyVal=0, MissingSyms=missing, MaxRows=maxrows, Thr=thr, Bound=bound,
                RareTask='TRUE' if rare else 'FALSE', RetireByValue='TRUE' if dev else 'FALSE')


def run_spec(V, label, c, emit=True, coverage=False):
    wd = E.workdir('c13')
    try:
        cfg = E.write_cfg(os.path.join(wd, 'mc.cfg'), constants=c, invariants=INVS + (['Emit'] if emit else []))
        res = E.run_tlc('DataQuality', cfg, coverage=coverage, timeout=900)
        E.require_ok(res, label)
        V.add_tlc(res, label)
        V.tlc_violation(res, label)
        cases = []
        if emit:
            for t in E.extract_tuples(res.stdout, 'CASE'):
                _, hist, sk, cnt, rare, cov = t
                as_map = lambda d: ({i + 1: v for i, v in enumerate(d)} if isinstance(d, tuple) else dict(d))
                cases.append({'hist': [[list(r) for r in b] for b in hist], 'sk': [sorted(s) for s in sk],
                              'cnt': [as_map(d) if d else {} for d in cnt], 'rare': {tuple(k): v for k, v in (rare.items() if rare else [])},
                              'cov': [[list(x) for x in c_] for c_ in cov]})
        return res, cases
    finally:
        E.cleanup(wd)


def gen_quality_file(rng, nrows):
    cols = ['id', 'small', 'mid', 'wide', 'sparse', 'label']
    lines = [','.join(cols) + '\n']
    for p in range(1, nrows + 1):
        # missingness drifts along the file, so that per-batch coverages are skewed (mean != median != pooled)
        late = p > 0.62 * nrows
        small = rng.choice(['a', 'b', 'c', '', '{}', 'a', 'a', ' a', 'a ', ' ']) if not late else rng.choice(['', '{}', '', 'a', 'b '])      # values differing only by surrounding blanks are different values
        mid = str(rng.randrange(40)) if rng.random() < (0.98 if not late else 0.35) else ''
        wide = f'w{int(rng.paretovariate(0.7)) % 500}'
        sparse = rng.choice(['u', 'v', 'w']) if p <= 0.4 * nrows else ''          # entirely missing in the later batches: their coverage is exactly 0
        lines.append(f'{p % 7},{small},{mid},{wide},{sparse},{rng.randrange(2)}\n')
    return cols, lines


def exact_stats(rows, cols, missing, thr):
    card = {c: len({r[i] for r in rows if r[i]}) for i, c in enumerate(cols)}
    rare = {}
    for i, c in enumerate(cols):
        cnt = {}
        for r in rows:
            cnt[r[i]] = cnt.get(r[i], 0) + 1
        for v, n in cnt.items():
            if n <= thr:
                rare[(c, v)] = n
    return card, rare


def main():
    tier, seed, replay = E.tier_seed()
    V = E.Verdict(PID, tier, seed)
    rng = random.Random(seed * 179424673 + 13)
    V.coverage['rule'] = ('TLC: DataQuality.tla - rows appended by the environment, ConsumeBatch at arbitrary moments (every composition of the row count), ghost of all consumed '
                          'rows; CardinalityExact, HistogramExact, RareReportExact, CoverageIsPerBatch for every row sequence of the bounded space, thresholds {1,2}, bounds {2,3}, '
                          'several missing-symbol sets.  Every history is replayed through the real compute_coverage / compute_cardinalities / compute_value_counts with fresh '
                          'globals; recorded per-batch states of real multi-batch runs (several minibatch sizes over one file, ranking and identify_rare_values tasks) are validated by '
                          'TraceQuality.tla and compared across splits; CLI outputs (name annotations, value_repetitions.json, rare_values.tsv) compared across minibatch sizes and '
                          'with the exact recomputation.  non-trivial = distinct histories with >= 2 batches')
    V.assumptions += ['cardinality below the sketch warm-up capacity (exact phase), 32-bit hash collisions not reachable at these sizes']

    Vt = E.Verdict(PID, tier, seed)
    r, _ = run_spec(Vt, 'deviation', consts('{1}', '{0,1}', '{0}', 4, 1, 3, dev=True), emit=False)
    if r.violated != 'RareReportExact':
        raise E.MachineryError('deviation control RetireByValue did not violate RareReportExact')
    V.notes['deviation_control'] = 'RetireByValue=TRUE (retired pairs looked up by the bare value) violates RareReportExact'

    q = tier == 'quick'
    confs = [('1col-4vals', consts('{1}', '{0,1,2,3}', '{0,3}', 4 if q else 5, 1, 3), {0: '', 1: 'a', 2: 'b', 3: '{}'}, ',{}', True),
             ('2cols-3vals', consts('{1,2}', '{0,1,2}', '{0}', 3, 2, 2), {0: '', 1: 'x', 2: 'é'}, '', True),
             ('NA-symbol', consts('{1}', '{0,1,2}', '{1}', 4, 1, 2), {0: '', 1: 'NA', 2: 'z'}, 'NA', True),
             ('ranking-task', consts('{1}', '{0,1,2}', '{0}', 4, 1, 2, rare=False), {0: '', 1: '1', 2: '01'}, '', False),
             # the option names a SET of symbols: naming one twice (or a trailing comma, which names '' twice) changes nothing
             ('repeated-symbol', consts('{1}', '{0,1,2}', '{1}', 4, 1, 2), {0: '', 1: 'NA', 2: 'z'}, 'NA,?,NA', True),
             ('trailing-comma', consts('{1}', '{0,1,2}', '{0,1}', 4, 1, 2), {0: '', 1: 'NA', 2: 'z'}, ',NA,', True)]
    if not q:
        confs.append(('2cols-thr1', consts('{1,2}', '{0,1,2}', '{0,2}', 3, 1, 3), {0: '', 1: 'a', 2: '{}'}, ',{}', True))
    for label, c, vmap, syms, raretask in confs:
        res, cases = run_spec(V, f'DataQuality/{label}', c, coverage=(label == '1col-4vals'))
        if not cases:
            raise E.MachineryError('no cases emitted')
        ncols = len(cases[0]['sk'])
        cols = [f'c{i + 1}' for i in range(ncols)]
        chunk = 300
        jobs = []
        for i in range(0, len(cases), chunk):
            jobs.append({'op': 'quality_replay', 'columns': cols,
                         'histories': [[[[vmap[v] for v in row] for row in b] for b in cs['hist']] for cs in cases[i:i + chunk]],
                         'args': {'missing_value_symbols': syms, 'rare_value_count_upper_bound': c['Thr'], 'max_unique_hist_constraint': c['Bound'],
                                  'task': 'identify_rare_values' if raretask else 'ranking'}})
        got = PC.pipe_eval(jobs, modules=['pipe_ops'])
        nontriv = 0
        drift = 0
        for ji, (job, r) in enumerate(zip(jobs, got)):
            if r is None or 'ok' not in r:
                V.violation(f'raises:{label}:{ji}', f'data-quality update failed: {PC.failure_text(r)}', {'job': ji, 'first_history': job['histories'][0], 'args': job['args']})
                continue
            for cs, ob in zip(cases[ji * chunk:(ji + 1) * chunk], r['ok']):
                hist_s = [[[vmap[v] for v in row] for row in b] for b in cs['hist']]
                key = f'{label}:batches={hist_s} thr={c["Thr"]} bound={c["Bound"]} missing={syms!r}'
                if len(cs['hist']) >= 2:
                    nontriv += 1
                allrows = [row for b in cs['hist'] for row in b]
                for i, col in enumerate(cols):
                    if ob['card'][col] != len(cs['sk'][i]):
                        V.violation('cardinality:' + key, f'column {col}: cardinality {ob["card"][col]}, exact distinct non-empty values {len(cs["sk"][i])}', {'history': hist_s, 'args': job['args']})
                    exp_hist = {vmap[v]: n for v, n in cs['cnt'][i].items()}
                    distinct = len({row[i] for row in allrows})
                    true = {}
                    for row in allrows:
                        true[vmap[row[i]]] = true.get(vmap[row[i]], 0) + 1
                    if ob['hist'][col] != exp_hist:
                        if distinct < c['Bound']:
                            V.violation('histogram:' + key, f'column {col}: counter {ob["hist"][col]}, exact counts {exp_hist}', {'history': hist_s, 'args': job['args']})
                        elif len(ob['hist'][col]) > c['Bound'] or any(n > true.get(v, 0) for v, n in ob['hist'][col].items()):
                            V.violation('histogram-bound:' + key, f'column {col}: counter {ob["hist"][col]} over-counts or tracks more than {c["Bound"]} values (true {true})', {'history': hist_s, 'args': job['args']})
                        else:
                            drift += 1
                    exp_cov = [100.0 * p / t for p, t in cs['cov'][i]]
                    if len(ob['cov'][col]) != len(exp_cov) or any(abs(a - b) > 1e-9 for a, b in zip(ob['cov'][col], exp_cov)):
                        V.violation('coverage:' + key, f'column {col}: per-batch coverage {ob["cov"][col]}, exact {exp_cov}', {'history': hist_s, 'args': job['args']})
                if raretask:
                    exp_rare = sorted([cols[k[0] - 1], vmap[k[1]], n] for k, n in cs['rare'].items())
                    if sorted(ob['rare']) != exp_rare:
                        V.violation('rare:' + key, f'rare-value report {sorted(ob["rare"])}, exact (pairs seen at most {c["Thr"]} times over all consumed rows) {exp_rare}', {'history': hist_s, 'args': job['args']})
        V.count(evaluations=len(cases), nontrivial=nontriv, traces=len(cases))
        V.notes[f'{label}_counter_drift_beyond_bound'] = drift
        V.add_sample({'run': label, 'history': cases[len(cases) // 2]['hist'], 'spec_state': {k: str(cases[len(cases) // 2][k]) for k in ('sk', 'cnt', 'rare', 'cov')}})

    # ---- binding B: one file, several splits, per-batch states validated by TraceQuality
    nrows = 1200
    cols, lines = gen_quality_file(rng, nrows)
    splits = [200, 300, 600, 1200] if q else [100, 150, 200, 300, 400, 600, 1200]
    jobs, meta = [], []
    for task, thr in ([('identify_rare_values', 1), ('identify_rare_values', 3), ('ranking', 1)] if q else
                      [('identify_rare_values', 1), ('identify_rare_values', 3), ('identify_rare_values', 30), ('ranking', 1)]):
        for mb in splits:
            jobs.append({'op': 'quality_stream', 'columns': cols, 'lines': lines,
                         'args': {'minibatch_size': mb, 'subsampling': 1, 'heuristic': 'Constant', 'task': task, 'rare_value_count_upper_bound': thr,
                                  'max_unique_hist_constraint': 45, 'missing_value_symbols': ',{}'}})
            meta.append((task, thr, mb))
    got = PC.pipe_eval(jobs, modules=['pipe_ops'], procs=12)
    wd = E.workdir('c13t')
    try:
        finals = {}
        for (task, thr, mb), job, r in zip(meta, jobs, got):
            key = f'split:task={task} thr={thr} minibatch={mb} rows={nrows} seed={seed}'
            if r is None or 'ok' not in r:
                V.violation('raises:' + key, f'run failed: {PC.failure_text(r)}', {'task': task, 'thr': thr, 'mb': mb, 'seed': seed})
                continue
            ob = r['ok']
            if len(ob['events']) != nrows // mb:
                raise E.MachineryError(f'{key}: {len(ob["events"])} batches recorded')
            tf = os.path.join(wd, 'q.ndjson')
            with open(tf, 'w') as f:
                f.write(json.dumps({'e': 'begin'}) + '\n')
                for ev in ob['events']:
                    f.write(json.dumps(ev) + '\n')
            wdmc = E.write_mc(wd, 'TraceQuality', {'MC_Missing': '{"", "{}"}'}, name='MCQ')
            cfg = E.write_cfg(os.path.join(wd, 'q.cfg'), spec='Spec', postcondition='Accepted',
                              constants={'Thr': thr, 'Bound': 45, 'RareTask': 'TRUE' if task == 'identify_rare_values' else 'FALSE', 'MissingSyms': '<- MC_Missing', 'EmptyVal': '""'})
            res = E.run_tlc(wdmc, cfg, workers=1, env={'TRACE_FILE': tf}, timeout=1200)
            E.require_ok(res, 'TraceQuality')
            V.add_tlc(res, f'TraceQuality/{task}-{thr}-{mb}')
            if not res.ok:
                V.violation('trace-rejected:' + key, f'TraceQuality rejects the state recorded after batch {res.depth - 1} (a statistic differs from its exact recomputation over the consumed rows)',
                            {'task': task, 'thr': thr, 'mb': mb, 'seed': seed})
            finals.setdefault((task, thr), []).append((mb, ob['card'], ob['hist'], sorted(ob['rare'])))
            V.count(evaluations=1, nontrivial=1 if nrows // mb >= 2 else 0, traces=1)
        for (task, thr), lst in finals.items():
            mb0, card0, hist0, rare0 = lst[0]
            for mb, card, hist, rare in lst[1:]:
                if card != card0:
                    V.violation(f'split-dependent-cardinality:task={task} thr={thr}', f'cardinalities differ between minibatch {mb0} and {mb}', {'task': task, 'thr': thr, 'mbs': [mb0, mb], 'seed': seed})
                if hist != hist0:
                    V.violation(f'split-dependent-histogram:task={task} thr={thr}', f'value counters differ between minibatch {mb0} and {mb}', {'task': task, 'thr': thr, 'mbs': [mb0, mb], 'seed': seed})
                if task == 'identify_rare_values' and rare != rare0:
                    V.violation(f'split-dependent-rare:task={task} thr={thr}', f'rare-value report differs between minibatch {mb0} ({len(rare0)} pairs) and {mb} ({len(rare)} pairs)',
                                {'task': task, 'thr': thr, 'mbs': [mb0, mb], 'seed': seed})
        # negative control
        okjob = next((r for r in got if r and 'ok' in r), None)
        if okjob:
            evs = [dict(e) for e in okjob['ok']['events']]
            evs[0] = dict(evs[0], card=dict(evs[0]['card'], small=evs[0]['card']['small'] + 1000))      # (far off: also when the recorded value itself is already wrong by a few)
            with open(tf, 'w') as f:
                for ev in evs[:1]:
                    f.write(json.dumps(ev) + '\n')
            res2 = E.run_tlc(wdmc, cfg, workers=1, env={'TRACE_FILE': tf}, timeout=600)
            if res2.ok:
                raise E.MachineryError('negative control: corrupted cardinality accepted by TraceQuality')
            V.notes['negative_control'] = 'TraceQuality rejects a batch state whose cardinality was increased by 1000'

        # ---- CLI: annotations, value_repetitions.json, rare_values.tsv across minibatch sizes
        n2 = 3000
        cols2, lines2 = gen_quality_file(rng, n2)
        ds = os.path.join(wd, 'ds')
        os.makedirs(ds)
        with open(os.path.join(ds, 'data.csv'), 'w') as f:
            f.writelines(lines2)
        rows2 = [ln.rstrip('\n').split(',') for ln in lines2[1:]]
        runs = [('ranking', 1500), ('ranking', 3000), ('ranking', 1000), ('ranking', 600), ('identify_rare_values', 1500), ('identify_rare_values', 3000),
                # plain feature names (--include_cardinality_in_feature_names False): a naming option, the histogram is still computed
                ('ranking/plain-names', 1500)]
        if not q:
            runs += [('ranking', 1100), ('identify_rare_values', 1200)]       # consume a prefix only: compared with the recomputation over that prefix

        def one(run):
            task, mb = run
            sub = os.path.join(wd, f'cli_{task.replace("/", "_")}_{mb}')
            os.makedirs(sub)
            os.symlink(ds, os.path.join(sub, 'ds'))
            rc, err = PC.run_cli(dict(task=task.split('/')[0], data_path='ds', data_source='csv-raw', minibatch_size=mb, subsampling=1, heuristic='MI-numba-randomized', num_threads=2,
                                      output_folder='out', rare_value_count_upper_bound=2, include_cardinality_in_feature_names='False' if task.endswith('/plain-names') else 'True'), sub)
            return run, rc, err, sub
        with cf.ThreadPoolExecutor(max_workers=6) as ex:
            results = list(ex.map(one, runs))
        # a data set without any rare value: the report must be empty, not missing
        ds0 = os.path.join(wd, 'ds0')
        os.makedirs(ds0)
        with open(os.path.join(ds0, 'data.csv'), 'w') as f:
            f.write('a,b,label\n')
            for p_ in range(1200):
                f.write(f'{p_ % 3},{p_ % 5},{p_ % 2}\n')
        sub0 = os.path.join(wd, 'cli_norare')
        os.makedirs(sub0)
        os.symlink(ds0, os.path.join(sub0, 'ds'))
        rc0, err0 = PC.run_cli(dict(task='identify_rare_values', data_path='ds', data_source='csv-raw', minibatch_size=600, subsampling=1, heuristic='MI-numba-randomized', num_threads=1,
                                    output_folder='out', rare_value_count_upper_bound=2), sub0)
        p0 = os.path.join(sub0, 'out', 'rare_values.tsv')
        if not os.path.exists(p0):
            V.violation('rare-report-empty:cli:task=identify_rare_values no value occurs <= 2 times', f'no rare-value report was written (exit {rc0}) although the exact report is well defined (empty): {err0[-300:]}',
                        {'rows': 1200, 'threshold': 2})
        else:
            with open(p0, newline='') as f:
                body = list(csv.reader(f, delimiter='\t'))[1:]
            if body:
                V.violation('rare-report-empty:cli', f'rare-value report lists {body[:3]} although no value occurs <= 2 times', {'rows': 1200, 'threshold': 2})
        V.count(evaluations=1, nontrivial=1, traces=1)
        outs = {}
        for (task, mb), rc, err, sub in results:
            key = f'cli:task={task} minibatch={mb}'
            consumed = rows2[:(n2 // mb) * mb + ((n2 % mb) if n2 % mb > 1024 else 0)]
            card, rare = exact_stats(consumed, cols2, {'', '{}'}, 2)
            plain = task.endswith('/plain-names')
            if task.split('/')[0] == 'ranking':
                p = os.path.join(sub, 'out', 'pairwise_ranks.tsv')
                if rc != 0 or not os.path.exists(p):
                    V.violation('cli-failed:' + key, f'exit {rc}: {err[-300:]}', {'task': task, 'mb': mb})
                    continue
                names = set()
                with open(p, newline='') as f:
                    for a, b, s in list(csv.reader(f, delimiter='\t'))[1:]:
                        names.update([a, b])
                ann = {}
                for nm in ([] if plain else names):
                    m = re.match(r'^(.*)-\((\d+); (-?\d+)\)$', nm)
                    if not m:
                        V.violation('annotation-format:' + key, f'feature name {nm!r} is not name-(cardinality; coverage)', {'task': task, 'mb': mb})
                        continue
                    ann[m.group(1)] = (int(m.group(2)), int(m.group(3)))
                for i, c in enumerate(cols2):
                    if c not in ann:
                        continue
                    batches = [consumed[j:j + mb] for j in range(0, len(consumed), mb)]
                    pcts = [(1 - sum(1 for r_ in b if r_[i] in ('', '{}')) / len(b)) * 100 for b in batches]
                    exp_cov = int(round(sum(pcts) / len(pcts), 1))
                    if ann[c] != (card[c], exp_cov):
                        V.violation(f'annotation:{key} column={c}', f'annotated ({ann[c][0]}; {ann[c][1]}), exact recomputation ({card[c]}; {exp_cov})', {'task': task, 'mb': mb, 'seed': seed})
                vr = json.load(open(os.path.join(sub, 'out', 'value_repetitions.json')))
                for i, c in enumerate(cols2):
                    cnt = {}
                    for r_ in consumed:
                        cnt[r_[i]] = cnt.get(r_[i], 0) + 1
                    if len(cnt) < 30000:
                        exp = {str(x): sum(1 for n in cnt.values() if n > x) for x in [0, 1, 10, 100, 1000, 10000, 100000]}
                        if vr.get(c) != exp:
                            V.violation(f'value-repetitions:{key} column={c}', f'{vr.get(c)} != exact {exp}', {'task': task, 'mb': mb, 'seed': seed})
                if plain:
                    if not names or any(nm not in cols2 for nm in names):
                        V.violation('plain-names:' + key, f'feature names {sorted(names)[:5]} are not the plain column names', {'task': task, 'mb': mb})
                else:
                    outs.setdefault('ranking', []).append((mb, len(consumed), ann, vr))
            else:
                p = os.path.join(sub, 'out', 'rare_values.tsv')
                if not os.path.exists(p):
                    V.violation('cli-failed:' + key, f'exit {rc}, rare_values.tsv missing: {err[-300:]}', {'task': task, 'mb': mb})
                    continue
                with open(p, newline='') as f:
                    got_rare = sorted((a, b, int(n)) for a, b, n in list(csv.reader(f, delimiter='\t'))[1:])
                exp_rare = sorted((c, v, n) for (c, v), n in rare.items())
                if got_rare != exp_rare:
                    extra = [x for x in got_rare if x not in exp_rare][:3]
                    missing = [x for x in exp_rare if x not in got_rare][:3]
                    V.violation('rare-report:' + key, f'rare_values.tsv has {len(got_rare)} rows, exact recomputation {len(exp_rare)}; extra {extra} missing {missing}', {'task': task, 'mb': mb, 'seed': seed})
                outs.setdefault('rare', []).append((mb, len(consumed), got_rare))
            V.count(evaluations=1, nontrivial=1, traces=1)
        for kind, lst in outs.items():
            same = [x for x in lst if x[1] == lst[0][1]]
            for x in same[1:]:
                if x[2:] != same[0][2:]:
                    V.violation(f'cli-split-dependent:{kind}', f'outputs differ between minibatch {same[0][0]} and {x[0]} although the same rows are consumed', {'kind': kind, 'mbs': [same[0][0], x[0]], 'seed': seed})
    finally:
        E.cleanup(wd)
    V.coverage['exhaustive'] = True
    return V.finish()


if __name__ == '__main__':
    try:
        sys.exit(main())
    except E.MachineryError as e:
        print(f'MACHINERY-FAILURE {PID}: {e}', file=sys.stderr)
        sys.exit(2)
    except Exception as e:  # unexpected harness error: machinery failure, never a verdict
        import traceback
        traceback.print_exc()
        print(f'MACHINERY-FAILURE {PID}: unexpected {type(e).__name__}: {e}', file=sys.stderr)
        sys.exit(2)
