------------------------------ MODULE Sampler ------------------------------
(***************************************************************************)
(* core_ranking.prior_combinations_sample and its process-global counter   *)
(* GLOBAL_PRIOR_COMB_COUNTS.  One action per call.  Two call sites share   *)
(* the counter: the interaction-candidate sampler (compute_combined_       *)
(* features) and the rank-pair sampler (mixed_rank_graph); a call passes   *)
(* its own candidate list (a sequence of keys, possibly with duplicates)   *)
(* and the cap of the moment.                                              *)
(*                                                                         *)
(* The counter is unbounded; the exhaustive configuration hides the        *)
(* absolute level behind a VIEW that subtracts the minimum count, which is *)
(* sound for Fair / LeastFirst / CountsArePicks (all shift-invariant), so  *)
(* TLC covers histories of any length, not a depth-bounded prefix.         *)
(***************************************************************************)
EXTENDS Naturals, Integers, Sequences, FiniteSets, FiniteSetsExt, SequencesExt, TLC

CONSTANTS Keys,        \* all keys (model: 1..n; list order = integer order unless a list says otherwise)
          Lists,       \* set of candidate lists (sequences over Keys) a call may pass
          MaxCap,      \* caps 1..MaxCap
          HistLen      \* length of the recorded call history (0 = none; behaviours are emitted from it)

VARIABLES count,   \* [Keys -> Nat]: GLOBAL_PRIOR_COMB_COUNTS (unregistered keys read as 0)
          picked,  \* ghost: number of times each key was returned
          sel,     \* last returned list
          hist     \* ghost: sequence of <<list, cap, sel>> (bounded by HistLen)
vars == <<count, picked, sel, hist>>

\* ---- the operation, as a function of (list, cap, counter): shared with SamplerTrace
Before(list, cnt, i, j) == cnt[list[i]] < cnt[list[j]] \/ (cnt[list[i]] = cnt[list[j]] /\ i < j)
RankIn(list, cnt, i) == Cardinality({j \in DOMAIN list : Before(list, cnt, j, i)}) + 1
\* sorted(list, key=count.get)[:cap]  (Python's sort is stable)
Selected(list, cnt, cap) ==
    LET k == IF cap < Len(list) THEN cap ELSE Len(list)
    IN [r \in 1..k |-> list[CHOOSE i \in DOMAIN list : RankIn(list, cnt, i) = r]]
Mult(s, key) == Cardinality({i \in DOMAIN s : s[i] = key})
Bump(cnt, s) == [key \in DOMAIN cnt |-> cnt[key] + Mult(s, key)]

Init == /\ count = [k \in Keys |-> 0] /\ picked = [k \in Keys |-> 0] /\ sel = <<>> /\ hist = <<>>

Sample(list, cap) ==
    /\ sel' = Selected(list, count, cap)
    /\ count' = Bump(count, sel')
    /\ picked' = Bump(picked, sel')
    /\ hist' = IF Len(hist) < HistLen THEN Append(hist, <<list, cap, sel'>>) ELSE hist

Next == \E list \in Lists : \E cap \in 1..MaxCap : Sample(list, cap)
Spec == Init /\ [][Next]_vars

RangeOf(s) == {s[i] : i \in DOMAIN s}
IsDupFree(s) == \A i, j \in DOMAIN s : i # j => s[i] # s[j]
MinCount == Min({count[k] : k \in Keys})

\* C07 ---------------------------------------------------------------------
\* for a stable duplicate-free list: counts of any two candidates differ by at most one
Fair == (Cardinality(Lists) = 1 /\ \A l \in Lists : IsDupFree(l)) =>
           \A l \in Lists : \A a, b \in RangeOf(l) : count[a] - count[b] \in {-1, 0, 1}
SelectedAreCandidates == \A i \in DOMAIN sel : \E l \in Lists : sel[i] \in RangeOf(l)
CountsArePicks == count = picked
\* action properties
ExactlyCap == [][\E list \in Lists : \E cap \in 1..MaxCap :
                    /\ sel' = Selected(list, count, cap)
                    /\ Len(sel') = (IF cap < Len(list) THEN cap ELSE Len(list))
                    /\ (IsDupFree(list) => IsDupFree(sel'))]_vars
LeastFirst == [][\E list \in Lists :
                    /\ RangeOf(sel') \subseteq RangeOf(list)
                    /\ \A a \in RangeOf(sel') : \A b \in RangeOf(list) \ RangeOf(sel') : count[a] <= count[b]]_vars

View == <<[k \in Keys |-> count[k] - MinCount], [k \in Keys |-> count[k] - picked[k]], sel>>
HistFull == Len(hist) = HistLen
Emit == (HistLen > 0 /\ HistFull) => PrintT(<<"CASE", hist, count>>)
Bounded == Len(hist) < HistLen \/ HistLen = 0
\* state constraint for configurations with several lists (the spread is unbounded there)
SpreadAtMost(n) == \A k \in Keys : count[k] - MinCount <= n
Spread3 == SpreadAtMost(3)
=============================================================================
