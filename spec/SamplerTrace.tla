--------------------------- MODULE SamplerTrace ---------------------------
(* Trace validation of recorded calls of the real prior_combinations_sample.             *)
(* ndjson: {"e":"begin"} resets the counter (a fresh process);                           *)
(*   {"e":"call","client":site,"list":[keys],"cap":c,"ret":[keys],"counts":{key:n,...}}  *)
(* where counts is the WHOLE counter after the call and client the calling function.     *)
(* A call event is accepted iff it is the Sample step of Sampler.tla on the logged list  *)
(* and cap and the logged counter equals the model's.  Keys are strings.                 *)
(* The ghost pk[client][key] counts how often the client's candidate `key` was returned  *)
(* to that client: ReportedIsPerCombination states that the reported count of a          *)
(* candidate combination is the number of batches in which THAT combination was          *)
(* selected (it fails when two call sites share a key for different combinations).       *)
(* An "evaluated" event after a rank-pair call lists the pairs actually scored in that    *)
(* batch: they must be exactly the returned candidates.                                  *)
EXTENDS Naturals, Integers, Sequences, FiniteSets, FiniteSetsExt, TLC, Json, IOUtils

VARIABLES l, cnt, pk, lastret
Trace == ndJsonDeserialize(IOEnv.TRACE_FILE)

Before(list, c, i, j) == c[list[i]] < c[list[j]] \/ (c[list[i]] = c[list[j]] /\ i < j)
RankIn(list, c, i) == Cardinality({j \in DOMAIN list : Before(list, c, j, i)}) + 1
Selected(list, c, cap) ==
    LET k == IF cap < Len(list) THEN cap ELSE Len(list)
    IN [r \in 1..k |-> list[CHOOSE i \in DOMAIN list : RankIn(list, c, i) = r]]
Mult(s, key) == Cardinality({i \in DOMAIN s : s[i] = key})
RangeOf(s) == {s[i] : i \in DOMAIN s}
Registered(c, list) == [key \in (DOMAIN c) \cup RangeOf(list) |-> IF key \in DOMAIN c THEN c[key] ELSE 0]
Get(f, k) == IF k \in DOMAIN f THEN f[k] ELSE 0
IsDupFree(q) == \A i, j \in DOMAIN q : i # j => q[i] # q[j]

Init == l = 1 /\ cnt = <<>> /\ pk = <<>> /\ lastret = <<>>
Begin == /\ l <= Len(Trace) /\ Trace[l].e = "begin"
         /\ cnt' = <<>> /\ pk' = <<>> /\ lastret' = <<>> /\ l' = l + 1
Call == /\ l <= Len(Trace) /\ Trace[l].e = "call"
        /\ LET ev == Trace[l]
               c0 == Registered(cnt, ev.list)
               s  == Selected(ev.list, c0, ev.cap)
               c1 == [key \in DOMAIN c0 |-> c0[key] + Mult(ev.ret, key)]
               old == IF ev.client \in DOMAIN pk THEN pk[ev.client] ELSE <<>>
               new == [key \in (DOMAIN old) \cup RangeOf(ev.list) |-> Get(old, key) + Mult(ev.ret, key)]
           IN /\ RangeOf(ev.ret) \subseteq RangeOf(ev.list)                    \* every returned combination is a candidate
              /\ Len(ev.ret) = Len(s)                                        \* exactly min(cap, #candidates)
              /\ (IsDupFree(ev.list) =>                                      \* ... distinct, taken from the least-evaluated ones
                    /\ IsDupFree(ev.ret)                                     \*     (ties may be broken in any way)
                    /\ \A a \in RangeOf(ev.ret) : \A b \in RangeOf(ev.list) \ RangeOf(ev.ret) : c0[a] <= c0[b])
              /\ DOMAIN ev.counts = DOMAIN c1                          \* the whole counter was logged
              /\ \A key \in DOMAIN c1 : ev.counts[key] = c1[key]       \* reported counts = model counts
              /\ cnt' = c1
              /\ pk' = [cl \in (DOMAIN pk) \cup {ev.client} |-> IF cl = ev.client THEN new ELSE pk[cl]]
              /\ lastret' = IF ev.client = "mixed_rank_graph" THEN ev.ret ELSE lastret
        /\ l' = l + 1
\* {"e":"evaluated","keys":[candidate keys of the pairs that appear in the batch's rows]}: the pairs evaluated in a
\* batch are exactly the candidates the rank-pair sampler returned for it (selected = evaluated = counted)
Evaluated == /\ l <= Len(Trace) /\ Trace[l].e = "evaluated"
             /\ RangeOf(Trace[l].keys) = RangeOf(lastret)
             /\ UNCHANGED <<cnt, pk, lastret>> /\ l' = l + 1
Next == Begin \/ Call \/ Evaluated
Spec == Init /\ [][Next]_<<l, cnt, pk, lastret>>

ReportedIsPerCombination == \A cl \in DOMAIN pk : \A key \in DOMAIN pk[cl] : cnt[key] = pk[cl][key]
Accepted == TLCGet("stats").diameter - 1 = Len(Trace)
=============================================================================
