------------------------------ MODULE MITrace ------------------------------
(* Validates recorded estimator cases against the DEFINITIONS of MIEstimator.tla.       *)
(* Each ndjson line: {"y": [...], "x": [...], "c": bool, "vec": {"2": k2, "3": k3,...}} *)
(* where vec is the coefficient vector (over the primes <= N) that the harness-side     *)
(* transcription of SpecScore produced.  TLC recomputes SpecScore from the definition    *)
(* and compares exactly.  Rows of a record are 1..Len(y) <= N.                          *)
EXTENDS MIEstimator, Json, IOUtils

VARIABLE l
Trace == ndJsonDeserialize(IOEnv.TRACE_FILE)

TInit == Init /\ l = 1
TNext == l <= Len(Trace) /\ l' = l + 1 /\ UNCHANGED vars
TSpec == TInit /\ [][TNext]_<<vars, l>>

VecMatches(v, rec) == \A p \in Primes : v[p] = rec[ToString(p)]

RecordOK == l <= Len(Trace) =>
    LET r == Trace[l] IN
        /\ VecMatches(SpecScore(r.y, r.x, r.c), r.vec)
        /\ (~r.c => VecMatches(AddV(NEnt(r.y), NegV(NCondEnt(r.y, r.x))), r.vec))

Accepted == TLCGet("stats").diameter - 1 = Len(Trace)
=============================================================================
