----------------------------- MODULE RankGraph -----------------------------
(***************************************************************************)
(* One mini-batch of core_ranking.mixed_rank_graph, for several batches:   *)
(*   Enumerate  get_combinations_from_columns (heuristic/mode dependent)   *)
(*   ClampCap   3MR: cap := min(cap, MAX_FEATURES_3MR)                     *)
(*   Sample     prior_combinations_sample (counter persists over batches)  *)
(*   Shuffle    random.shuffle (any permutation)                           *)
(*   Constant   the Constant heuristic lists each selected pair once, 0    *)
(*   Submit / Take(w) / Finish(w) / Gather   the worker pool (amap)        *)
(*   Mirror     both orientations of every triplet                         *)
(* Column names are integers whose order is the string order of the real   *)
(* names (the harness maps them to strings); Rel = names containing        *)
(* " AND_REL ".  Scores are symbolic: Score(<<a,b>>) - the pool tasks are  *)
(* pure functions of (pair, frozen frame), see Scoring.tla for the values. *)
(***************************************************************************)
EXTENDS Naturals, Sequences, FiniteSets, FiniteSetsExt, SequencesExt, TLC

CONSTANTS
    Universe,      \* column ids
    Rel,           \* ids of relation features (names containing " AND_REL ")
    Label,         \* id of the label column
    MinCols, MaxCols,
    Modes,         \* subset of {"target", "pairwise"}
    Heuristics,    \* subset of {"scoring", "scoring3mr", "Constant"}
    Caps,          \* candidate caps
    Max3mr,        \* MAX_FEATURES_3MR (10^4 in the code)
    Batches,
    Workers, ChunkSize,
    PoolKind,      \* "amap" (results in submission order) | "uimap" (completion order)
    ShuffleAll,    \* explore every permutation at Shuffle (otherwise identity)
    RelDiagonal    \* named deviation: relation features also paired with themselves

VARIABLES pc, cols, mode, heur, cap, count, combos, sel, tasks, queue, busy, results, order, triplets, batch, hist
vars == <<pc, cols, mode, heur, cap, count, combos, sel, tasks, queue, busy, results, order, triplets, batch, hist>>

ColSet == {cols[i] : i \in DOMAIN cols}
Is3mr == heur = "scoring3mr"
IsRel(c) == c \in Rel

\* itertools.combinations_with_replacement(s, 2): <<s[i], s[j]>>, i <= j, lexicographic
CWRIdx(n) == {<<i, j>> \in (1..n) \X (1..n) : i <= j}
IdxLess(p, q) == p[1] < q[1] \/ (p[1] = q[1] /\ p[2] < q[2])
CWR(s) == LET idx == SetToSortSeq(CWRIdx(Len(s)), IdxLess)
          IN [k \in DOMAIN idx |-> <<s[idx[k][1]], s[idx[k][2]]>>]
SortedSeq(T) == SetToSortSeq(T, LAMBDA a, b : a < b)

\* ---- get_combinations_from_columns, shaped like the code
RelCols == SelectSeq(cols, IsRel)
NonRelSorted == SortedSeq({c \in ColSet : ~IsRel(c)})
MainCombos ==
    IF Is3mr THEN CWR(NonRelSorted) \o [k \in DOMAIN RelCols |-> <<RelCols[k], Label>>]
    ELSE IF mode = "target" THEN SelectSeq(CWR(cols), LAMBDA p : p[1] = Label \/ p[2] = Label)
    ELSE CWR(cols)
DiagCols == SelectSeq(cols, LAMBDA c : c # Label /\ (RelDiagonal \/ ~(Is3mr /\ IsRel(c))))
CodeCombos == IF mode = "target" THEN MainCombos
              ELSE MainCombos \o [k \in DOMAIN DiagCols |-> <<DiagCols[k], DiagCols[k]>>]

\* ---- what the property asks for (unordered pairs as sets of one or two columns)
Unordered(p) == {p[1], p[2]}
SpecPairs ==
    IF Is3mr THEN {{a, b} : a \in {c \in ColSet : ~IsRel(c)}, b \in {c \in ColSet : ~IsRel(c)}}
                  \cup {{r, Label} : r \in {c \in ColSet : IsRel(c)}}
    ELSE IF mode = "target" THEN {{f, Label} : f \in ColSet}
    ELSE {{a, b} : a \in ColSet, b \in ColSet}

\* ---- sampler (see Sampler.tla), counter over unordered... the code keys by the ORDERED tuple
Cnt(key) == IF key \in DOMAIN count THEN count[key] ELSE 0
Before(list, i, j) == Cnt(list[i]) < Cnt(list[j]) \/ (Cnt(list[i]) = Cnt(list[j]) /\ i < j)
RankIn(list, i) == Cardinality({j \in DOMAIN list : Before(list, j, i)}) + 1
Selected(list, k) == [r \in 1..(IF k < Len(list) THEN k ELSE Len(list)) |->
                         list[CHOOSE i \in DOMAIN list : RankIn(list, i) = r]]
Mult(s, key) == Cardinality({i \in DOMAIN s : s[i] = key})
RangeOf(s) == {s[i] : i \in DOMAIN s}

Score(p) == <<"score", p[1], p[2]>>           \* symbolic: a pure function of the pair

Init == /\ pc = "columns" /\ cols = <<>> /\ mode \in Modes /\ heur \in Heuristics /\ cap \in Caps
        /\ count = <<>> /\ combos = <<>> /\ sel = <<>> /\ tasks = <<>> /\ queue = <<>>
        /\ busy = [w \in 1..Workers |-> <<>>] /\ results = <<>> /\ order = <<>> /\ triplets = <<>>
        /\ batch = 0 /\ hist = <<>>

AddColumn == /\ pc = "columns" /\ Len(cols) < MaxCols
             /\ \E c \in Universe \ ColSet : cols' = Append(cols, c)
             /\ UNCHANGED <<pc, mode, heur, cap, count, combos, sel, tasks, queue, busy, results, order, triplets, batch, hist>>
StartBatches == /\ pc = "columns" /\ Label \in ColSet /\ Len(cols) >= MinCols /\ pc' = "enumerate"
                /\ UNCHANGED <<cols, mode, heur, cap, count, combos, sel, tasks, queue, busy, results, order, triplets, batch, hist>>

Enumerate == /\ pc = "enumerate"
             /\ combos' = CodeCombos
             /\ cap' = IF Is3mr /\ cap > Max3mr THEN Max3mr ELSE cap          \* ClampCap (persists: args is mutated)
             /\ pc' = "sample"
             /\ UNCHANGED <<cols, mode, heur, count, sel, tasks, queue, busy, results, order, triplets, batch, hist>>

Sample == /\ pc = "sample"
          /\ sel' = Selected(combos, cap)
          /\ count' = [key \in (DOMAIN count) \cup RangeOf(combos) |-> Cnt(key) + Mult(sel', key)]
          /\ pc' = "shuffle"
          /\ UNCHANGED <<cols, mode, heur, cap, combos, tasks, queue, busy, results, order, triplets, batch, hist>>

IsPermOf(t, s) == /\ Len(t) = Len(s)
                  /\ \E f \in Permutations(DOMAIN s) : \A i \in DOMAIN s : t[i] = s[f[i]]
Shuffle == /\ pc = "shuffle"
           /\ IF ShuffleAll THEN \E f \in Permutations(DOMAIN sel) : tasks' = [i \in DOMAIN sel |-> sel[f[i]]]
                            ELSE tasks' = sel
           /\ pc' = IF heur = "Constant" THEN "constant" ELSE "submit"
           /\ UNCHANGED <<cols, mode, heur, cap, count, combos, sel, queue, busy, results, order, triplets, batch, hist>>

FinishBatch(trip) ==
    /\ triplets' = trip
    /\ batch' = batch + 1
    /\ hist' = Append(hist, <<sel, trip>>)
    /\ pc' = IF batch + 1 < Batches THEN "enumerate" ELSE "done"

ConstantStep == /\ pc = "constant"
                /\ FinishBatch([i \in DOMAIN tasks |-> <<tasks[i][1], tasks[i][2], 0>>])
                /\ UNCHANGED <<cols, mode, heur, cap, count, combos, sel, tasks, queue, busy, results, order>>

\* ---- the pool
Chunks(n) == [k \in 1..((n + ChunkSize - 1) \div ChunkSize) |->
                 [m \in 1..(IF k * ChunkSize <= n THEN ChunkSize ELSE n - (k - 1) * ChunkSize) |-> (k - 1) * ChunkSize + m]]
Submit == /\ pc = "submit"
          /\ queue' = Chunks(Len(tasks))
          /\ results' = [i \in DOMAIN tasks |-> <<>>]
          /\ order' = <<>>
          /\ pc' = "running"
          /\ UNCHANGED <<cols, mode, heur, cap, count, combos, sel, tasks, busy, triplets, batch, hist>>
Take(w) == /\ pc = "running" /\ busy[w] = <<>> /\ queue # <<>>
           /\ busy' = [busy EXCEPT ![w] = Head(queue)]
           /\ queue' = Tail(queue)
           /\ UNCHANGED <<pc, cols, mode, heur, cap, count, combos, sel, tasks, results, order, triplets, batch, hist>>
Finish(w) == /\ pc = "running" /\ busy[w] # <<>>
             /\ results' = [i \in DOMAIN results |-> IF i \in RangeOf(busy[w]) THEN <<tasks[i][1], tasks[i][2], Score(tasks[i])>> ELSE results[i]]
             /\ order' = order \o busy[w]
             /\ busy' = [busy EXCEPT ![w] = <<>>]
             /\ UNCHANGED <<pc, cols, mode, heur, cap, count, combos, sel, tasks, queue, triplets, batch, hist>>
Mirror(rs) == [k \in 1..(2 * Len(rs)) |->
                 LET t == rs[(k + 1) \div 2] IN IF k % 2 = 1 THEN <<t[2], t[1], t[3]>> ELSE t]
Gather == /\ pc = "running" /\ queue = <<>> /\ \A w \in 1..Workers : busy[w] = <<>>
          /\ LET got == IF PoolKind = "uimap" THEN [k \in DOMAIN order |-> results[order[k]]] ELSE results
             IN FinishBatch(Mirror(got))
          /\ UNCHANGED <<cols, mode, heur, cap, count, combos, sel, tasks, queue, busy, results, order>>

Next == AddColumn \/ StartBatches \/ Enumerate \/ Sample \/ Shuffle \/ ConstantStep \/ Submit
        \/ (\E w \in 1..Workers : Take(w) \/ Finish(w)) \/ Gather
Spec == Init /\ [][Next]_vars
\* ---- liveness of the pool sub-machine: under weak fairness of the workers and of the gathering loop every submitted chunk is
\* taken and finished, the results are gathered and all batches complete (the 4 s polling loop of the code terminates)
FairSpec == Spec /\ WF_vars(Next) /\ \A w \in 1..Workers : WF_vars(Take(w)) /\ WF_vars(Finish(w))
AllBatchesComplete == <>(pc = "done")
SubmittedIsGathered == [](pc = "running" => <>(pc # "running"))

AfterBatch == batch > 0 /\ pc \in {"enumerate", "done"}
TripSet == RangeOf(triplets)
PairsOf(trip) == {Unordered(trip[k]) : k \in DOMAIN trip}

\* ---- C06
EnumerationIsSpec == pc = "sample" => {Unordered(combos[k]) : k \in DOMAIN combos} = SpecPairs
PairsExact == AfterBatch =>
    /\ PairsOf(triplets) \subseteq SpecPairs
    /\ (cap >= Len(combos) => PairsOf(triplets) = SpecPairs)
    /\ Len(sel) = (IF cap < Len(combos) THEN cap ELSE Len(combos))
    /\ PairsOf(triplets) = {Unordered(sel[k]) : k \in DOMAIN sel}
BothOrientations == AfterBatch /\ heur # "Constant" =>
    \A t \in TripSet : <<t[2], t[1], t[3]>> \in TripSet
ConstantOnce == AfterBatch /\ heur = "Constant" =>
    /\ Len(triplets) = Len(sel)
    /\ \A k \in DOMAIN triplets : triplets[k][3] = 0
    /\ \A key \in RangeOf(sel) : Mult([k \in DOMAIN triplets |-> <<triplets[k][1], triplets[k][2]>>], key) = Mult(sel, key)
NoForeignColumn == AfterBatch => \A t \in TripSet : t[1] \in ColSet /\ t[2] \in ColSet
RelOnlyWithLabel == AfterBatch /\ Is3mr => \A t \in TripSet : (IsRel(t[1]) => t[2] = Label) /\ (IsRel(t[2]) => t[1] = Label)

\* ---- C09: whatever the schedule, the batch's triplets are the pure scores of the selected pairs
ScheduleIndependent == AfterBatch /\ heur # "Constant" =>
    TripSet = UNION {{<<p[1], p[2], Score(p)>>, <<p[2], p[1], Score(p)>>} : p \in RangeOf(sel)}
ResultsComplete == pc = "running" /\ queue = <<>> /\ (\A w \in 1..Workers : busy[w] = <<>>)
                      => \A i \in DOMAIN results : results[i] = <<tasks[i][1], tasks[i][2], Score(tasks[i])>>

EmitConfig == pc = "done" => PrintT(<<"CASE", cols, mode, heur, cap, SpecPairs, [b \in DOMAIN hist |-> hist[b][1]]>>)
EmitSchedule == pc = "done" => PrintT(<<"SCHED", cols, mode, Len(tasks), order, tasks>>)
=============================================================================
