--------------------------- MODULE TracePipeline ---------------------------
(* Trace validation of real CLI task sequences against Pipeline.tla.                     *)
(* ndjson: {"e":"config","kind":..,"numeric":bool,"batches":..,"order":n,"chars":[c,..]}   *)
(*         {"e":"task","task":name,"out":[known artefacts present afterwards],           *)
(*          "ckpt":bool (checkpoint file present afterwards),"crashed":bool}              *)
EXTENDS Pipeline, Json, IOUtils
VARIABLE l
Trace == ndJsonDeserialize(IOEnv.TRACE_FILE)
Known == {"pairwise_ranks.tsv", "memory.tsv", "value_repetitions.json", "combination_estimation_counts.json", "timings.json", "arguments.json",
          "3mr_ranks.tsv", "numeric_feature_statistics.tsv", "feature_singles.tsv", "feature_singles_transformers_only_imp.tsv",
          "feature_singles_aggregated.tsv", "rare_values.tsv", "feature_sparsity_summary.tsv"} \cup VisArtefacts
TInit == /\ l = 2 /\ Trace[1].e = "config"
         /\ cfg = [kind |-> Trace[1].kind, numeric |-> Trace[1].numeric, batches |-> Trace[1].batches, order |-> Trace[1].order,
                chars |-> {Trace[1].chars[i] : i \in DOMAIN Trace[1].chars}]
         /\ data = FALSE /\ out = {} /\ ckpt = FALSE /\ log = <<>> /\ crashed = FALSE
Act(name) == CASE name = "data_generator" -> Generate [] name = "ranking" -> Ranking [] name = "identify_rare_values" -> RareValues
               [] name = "feature_summary_transformers" -> TransformerHints [] name = "ranking_summary" -> Summary
               [] name = "visualization" -> Visualize [] name = "all" -> All [] name = "instance_ranking" -> InstanceRanking [] OTHER -> FALSE
TNext == /\ l <= Len(Trace) /\ Trace[l].e = "task"
         /\ Act(Trace[l].task)
         /\ LET seen == {Trace[l].out[i] : i \in DOMAIN Trace[l].out} IN
            /\ out' \cap Known = seen \cap Known
            /\ {x \in out' : x \notin Known} = {x \in seen : x \notin Known}          \* the instance-ranking plot families
         /\ ckpt' = Trace[l].ckpt
         /\ crashed' = Trace[l].crashed
         /\ l' = l + 1
TSpec == TInit /\ [][TNext]_<<vars, l>>
Accepted == TLCGet("stats").diameter = Len(Trace)
=============================================================================
