------------------------------ MODULE Scoring ------------------------------
(***************************************************************************)
(* What one (feature A, feature B, score) row of a mini-batch must hold:   *)
(* importance_estimator.get_importances_estimate_pairwise =                *)
(*   generate_data_for_ranking (label to the conditioning side)            *)
(*   + conduct_feature_ranking (dispatch on the heuristic name)            *)
(* on the category codes of the two columns (core_ranking.mixed_rank_graph *)
(* encodes every column as astype('category').cat.codes = rank of the      *)
(* value in the sorted set of the column's values).                        *)
(* Column values are integers whose order is the string order of the real  *)
(* cell values.  Results: <<"vec", v>> exact log-vector of n*score (MI     *)
(* family), <<"rat", num, den>> exact rational (coverage, Constant),       *)
(* <<"tag", name>> library formula evaluated by the harness on the codes   *)
(* (Pearson, AMI): the spec pins WHICH columns, WHICH coding, WHICH side.  *)
(***************************************************************************)
EXTENDS MIDefs     \* N = number of rows

CONSTANTS NFeat,            \* feature columns 1..NFeat; column 0 is the label
          FeatVals, OtherVals, LabelVals,   \* values of feature 1, of the other features, of the label
          Names,            \* heuristic names explored
          Documented        \* names found in the project's docs/examples/scripts (non-surrogate) + the statement's

VARIABLES pc, cols
vars == <<pc, cols>>

Rows == 1..N
Codes(col) == [i \in Rows |-> Cardinality({v \in Vals(col) : v < col[i]})]

Dispatch == [name \in {"MI", "MI-numba-3mr", "MI-numba", "MI-numba-randomized", "max-value-coverage", "correlation-Pearson", "AMI", "Constant"} |->
               CASE name \in {"MI", "MI-numba-3mr", "MI-numba"} -> "plugin"
                 [] name = "MI-numba-randomized" -> "corrected"
                 [] name = "max-value-coverage" -> "coverage"
                 [] name = "correlation-Pearson" -> "pearson"
                 [] name = "AMI" -> "ami"
                 [] OTHER -> "zero"]

MaxJoint(a, b) == Max({Cardinality({i \in Rows : a[i] = a[k] /\ b[i] = b[k]}) : k \in Rows})

\* score of feature column a with b on the conditioning side
ScoreOf(kind, a, b) ==
    CASE kind = "plugin"    -> <<"vec", NPlugin(Codes(a), Codes(b))>>
      [] kind = "corrected" -> <<"vec", SpecScore(Codes(a), Codes(b), TRUE)>>
      [] kind = "coverage"  -> <<"rat", MaxJoint(a, b), N>>
      [] kind = "zero"      -> <<"rat", 0, 1>>
      [] OTHER              -> <<"tag", kind>>

Col(i) == cols[i + 1]                      \* 0 = label
Pairs == {<<i, j>> \in (0..NFeat) \X (0..NFeat) : i <= j}
\* the label is always the conditioning target; for a pair without the label the statement fixes
\* no side, so either orientation is acceptable
AcceptableK(kind, p) ==
    IF p[1] = 0 THEN {ScoreOf(kind, Col(p[2]), Col(0))}
    ELSE {ScoreOf(kind, Col(p[1]), Col(p[2])), ScoreOf(kind, Col(p[2]), Col(p[1]))}
Acceptable(name, p) == AcceptableK(Dispatch[name], p)
Kinds == {Dispatch[name] : name \in Names}

Init == pc = "label" /\ cols = <<>>
ChooseLabel == /\ pc = "label" /\ \E c \in [Rows -> LabelVals] : cols' = <<c>>
               /\ pc' = "features"
ChooseFeature == /\ pc = "features" /\ Len(cols) < NFeat + 1
                 /\ \E c \in [Rows -> (IF Len(cols) = 1 THEN FeatVals ELSE OtherVals)] : cols' = Append(cols, c)
                 /\ pc' = IF Len(cols) = NFeat THEN "score" ELSE "features"
Next == ChooseLabel \/ ChooseFeature
Spec == Init /\ [][Next]_vars

Ready == pc = "score"
\* ---- C05, model level
DocumentedNotConstant == \A name \in Documented : Dispatch[name] # "zero"
PluginSymmetric == Ready => \A p \in Pairs : Cardinality(AcceptableK("plugin", p)) = 1
SelfScore == Ready => \A kind \in {"plugin", "corrected"} :
                 AcceptableK(kind, <<0, 0>>) = {<<"vec", NEnt(Codes(Col(0)))>>}
CoverageRange == Ready => \A p \in Pairs : \A r \in AcceptableK("coverage", p) : r[2] >= 1 /\ r[2] <= N
\* emission: the dispatch table once, then per frame the acceptable results per scorer kind
EmitDispatch == pc = "label" => PrintT(<<"DISPATCH", [name \in Names |-> Dispatch[name]]>>)
Emit == Ready => PrintT(<<"CASE", cols, [kind \in Kinds \ {"zero", "pearson", "ami"} |-> [p \in Pairs |-> AcceptableK(kind, p)]]>>)
=============================================================================
