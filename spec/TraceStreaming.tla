-------------------------- MODULE TraceStreaming --------------------------
(* Trace validation of recorded runs of the real estimate_importances_minibatches /      *)
(* ranking task against Streaming.tla's actions, with the code's real constants.         *)
(* Events (ndjson), recorded at the loop's linearisation points:                         *)
(*  {"e":"parse","nf":fields,"pos":p,"wf":w}  a selected line was parsed; p = the row's   *)
(*                                      own 1-based position carried in its first field  *)
(*                                      (-1 if unreadable, e.g. an empty line); w = what *)
(*                                      the generated file knows about the line: 1 well- *)
(*                                      formed (as many CSV fields as the header), 0     *)
(*                                      malformed, -1 unknown                            *)
(*  {"e":"batch","k":k,"ids":[p..],"trip":[[A,B,s]..]}  compute_batch_ranking returned   *)
(*  {"e":"checkpoint","k":k,"table":[[A,B,s]..]}        checkpoint file after the call   *)
(*  {"e":"invalid","n":n}               the invalid-line report                          *)
(*  {"e":"final","table":[[A,B,s]..]}   the returned aggregation                         *)
(*  {"e":"written","rows":[[A,B,s]..]}  pairwise_ranks.tsv in file order (CLI runs)      *)
(* Scores are round(score * 2^20); medians are compared doubled with tolerance 2.        *)
EXTENDS Naturals, Integers, Sequences, FiniteSets, FiniteSetsExt, SequencesExt, TLC, Json, IOUtils

CONSTANTS MB, SS, TailMin, NCols, NLines, Scoring

VARIABLES l, lineno, buf, nb, trip, inval, ck, invseen, fin
tvars == <<l, lineno, buf, nb, trip, inval, ck, invseen, fin>>
Trace == ndJsonDeserialize(IOEnv.TRACE_FILE)

Ev(e) == l <= Len(Trace) /\ Trace[l].e = e /\ l' = l + 1
FileDone == lineno + SS > NLines              \* no further selected line exists
Tol == 2

SortedInts(s) == SortSeq(s, LAMBDA a, b : a < b)
Median2(s) == LET t == SortedInts(s)  n == Len(s)
              IN IF n % 2 = 1 THEN 2 * t[(n + 1) \div 2] ELSE t[n \div 2] + t[n \div 2 + 1]
Abs(x) == IF x < 0 THEN -x ELSE x
KeysOf(tab) == {<<tab[i][1], tab[i][2]>> : i \in DOMAIN tab}
\* table = median aggregation of the accumulated triplets (each ordered pair exactly once)
IsMedianTable(tab) ==
    /\ KeysOf(tab) = DOMAIN trip
    /\ Len(tab) = Cardinality(DOMAIN trip)
    /\ \A i \in DOMAIN tab : Abs(2 * tab[i][3] - Median2(trip[<<tab[i][1], tab[i][2]>>])) <= Tol
Accumulate(tr) ==
    LET keys == (DOMAIN trip) \cup {<<tr[i][1], tr[i][2]>> : i \in DOMAIN tr}
        news(key) == SelectSeq(tr, LAMBDA t : <<t[1], t[2]>> = key)
    IN [key \in keys |-> (IF key \in DOMAIN trip THEN trip[key] ELSE <<>>) \o [j \in DOMAIN news(key) |-> news(key)[j][3]]]

Init == /\ l = 1 /\ lineno = 0 /\ buf = <<>> /\ nb = 0 /\ trip = <<>> /\ inval = 0
        /\ ck = "none" /\ invseen = FALSE /\ fin = FALSE

\* AcceptRow / RejectRow (ReadSkip steps are silent: the position advances by SS)
Parse == /\ Ev("parse")
         /\ ~fin /\ ck # "due" /\ Len(buf) < MB                       \* a due batch/checkpoint comes first
         /\ lineno + SS <= NLines                                     \* the line exists
         /\ Trace[l].pos \in {lineno + SS, -1}                        \* exactly the next multiple of SS, none skipped
         /\ lineno' = lineno + SS
         /\ (Trace[l].wf = 1 => Trace[l].nf = NCols) /\ (Trace[l].wf = 0 => Trace[l].nf # NCols)   \* the parser's verdict is the file's
         /\ IF Trace[l].nf = NCols
            THEN buf' = Append(buf, lineno + SS) /\ inval' = inval
            ELSE buf' = buf /\ inval' = inval + 1                     \* rejected as a whole
         /\ UNCHANGED <<nb, trip, ck, invseen, fin>>

\* ProcessBatch / TailBatch
Batch == /\ Ev("batch")
         /\ ~fin /\ ck # "due"
         /\ \/ Len(buf) >= MB
            \/ (FileDone /\ Len(buf) > TailMin)
         /\ Trace[l].k = nb + 1
         /\ Trace[l].ids = buf                                        \* exactly the buffered rows, in file order
         /\ nb' = nb + 1 /\ buf' = <<>>
         /\ trip' = Accumulate(Trace[l].trip)
         /\ ck' = IF Scoring \/ Len(buf) < MB THEN "due" ELSE "none"   \* tail batches always checkpoint
         /\ UNCHANGED <<lineno, inval, invseen, fin>>

Checkpoint == /\ Ev("checkpoint")
              /\ ck = "due" /\ Trace[l].k = nb
              /\ IsMedianTable(Trace[l].table)
              /\ ck' = "none"
              /\ UNCHANGED <<lineno, buf, nb, trip, inval, invseen, fin>>

Invalid == /\ Ev("invalid")
           /\ FileDone /\ Len(buf) < MB /\ ck # "due"
           /\ Trace[l].n = inval /\ inval > 0
           /\ invseen' = TRUE
           /\ UNCHANGED <<lineno, buf, nb, trip, inval, ck, fin>>

Final == /\ Ev("final")
         /\ ~fin /\ FileDone /\ ck # "due"
         /\ Len(buf) <= TailMin /\ Len(buf) < MB                      \* DropTail, or the tail was consumed
         /\ IF nb = 0 THEN Trace[l].table = <<>> ELSE IsMedianTable(Trace[l].table)
         /\ fin' = TRUE
         /\ UNCHANGED <<lineno, buf, nb, trip, inval, ck, invseen>>

Written == /\ Ev("written")
           /\ fin
           /\ IsMedianTable(Trace[l].rows)
           /\ \A i \in 1..(Len(Trace[l].rows) - 1) : Trace[l].rows[i][3] <= Trace[l].rows[i + 1][3]   \* ascending
           /\ UNCHANGED <<lineno, buf, nb, trip, inval, ck, invseen, fin>>

Next == Parse \/ Batch \/ Checkpoint \/ Invalid \/ Final \/ Written
Spec == Init /\ [][Next]_tvars

BatchInvariant == Len(buf) <= MB
Accepted == TLCGet("stats").diameter - 1 = Len(Trace)
=============================================================================
