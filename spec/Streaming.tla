----------------------------- MODULE Streaming -----------------------------
(***************************************************************************)
(* core_ranking.estimate_importances_minibatches + the tail of             *)
(* task_ranking.outrank_task_conduct_ranking, one action per branch of the *)
(* line loop:                                                              *)
(*   ReadSkip      line_counter % subsampling != 0 -> continue             *)
(*   AcceptRow     parsed line has the header's field count -> buffer      *)
(*   RejectRow     wrong field count -> counted, dropped as a whole        *)
(*   ProcessBatch  len(buffer) >= minibatch_size: rank the batch, append   *)
(*                 its triplets, write the checkpoint (scoring heuristics) *)
(*   CloseFile     end of file                                             *)
(*   TailBatch     remaining buffer used iff it has MORE than TailMin rows *)
(*   DropTail      otherwise discarded                                     *)
(*   Aggregate     median per ordered pair over all batches                *)
(*   SortAndWrite  pairwise_ranks.tsv in ascending score order             *)
(* The file is produced line by line by the environment (Good/Bad rows).   *)
(* Scores are abstract small integers chosen per (batch, pair); medians    *)
(* are kept doubled (2*median) to stay in the integers.                    *)
(***************************************************************************)
EXTENDS Naturals, Integers, Sequences, FiniteSets, FiniteSetsExt, SequencesExt, TLC

CONSTANTS MB,        \* minibatch_size
          SS,        \* subsampling
          TailMin,   \* 2**10 in the code
          MaxLines,  \* bound on the file length explored
          Pairs,     \* set of ordered-pair ids scored in every batch
          Scores,    \* possible per-batch scores
          Scoring,   \* FALSE = the Constant heuristic (no checkpoint inside the loop)
          TailGE     \* named deviation: tail used when len >= TailMin

VARIABLES file,      \* sequence of "good"/"bad" for the lines read so far (the environment's choices)
          buf,       \* buffered accepted row positions
          batches,   \* sequence of processed batches (each a sequence of row positions)
          invalid,   \* counted malformed rows
          trip,      \* [Pairs -> sequence of per-batch scores]
          ckpt,      \* [Pairs -> doubled median] as last written to the checkpoint file ("none" before)
          pc, out

vars == <<file, buf, batches, invalid, trip, ckpt, pc, out>>

pos == Len(file)
Selected(i) == i % SS = 0

\* ---- reference semantics
RefRows == SelectSeq([i \in 1..Len(file) |-> i], LAMBDA i : Selected(i) /\ file[i] = "good")
RefInvalid == Cardinality({i \in 1..Len(file) : Selected(i) /\ file[i] = "bad"})
Flat(bs) == FoldLeft(LAMBDA acc, b : acc \o b, <<>>, bs)
RefBatches ==       \* consecutive chunks of MB, plus the remainder iff it has more than TailMin rows
    LET r == RefRows
        full == Len(r) \div MB
        rest == Len(r) - full * MB
        chunks == [k \in 1..full |-> SubSeq(r, (k - 1) * MB + 1, k * MB)]
    IN IF rest > TailMin THEN Append(chunks, SubSeq(r, full * MB + 1, Len(r))) ELSE chunks

SortedInts(s) == SortSeq(s, LAMBDA a, b : a < b)
Median2(s) == LET t == SortedInts(s)  n == Len(s)
              IN IF n % 2 = 1 THEN 2 * t[(n + 1) \div 2] ELSE t[n \div 2] + t[n \div 2 + 1]
Medians == [p \in Pairs |-> Median2(trip[p])]

Init == /\ file = <<>> /\ buf = <<>> /\ batches = <<>> /\ invalid = 0
        /\ trip = [p \in Pairs |-> <<>>] /\ ckpt = "none" /\ pc = "loop" /\ out = <<>>

CanRead == pc = "loop" /\ Len(buf) < MB /\ Len(file) < MaxLines
ReadSkip == /\ CanRead /\ ~Selected(pos + 1)
            /\ \E kind \in {"good", "bad"} : file' = Append(file, kind)
            /\ UNCHANGED <<buf, batches, invalid, trip, ckpt, pc, out>>
AcceptRow == /\ CanRead /\ Selected(pos + 1)
             /\ file' = Append(file, "good")
             /\ buf' = Append(buf, pos + 1)
             /\ UNCHANGED <<batches, invalid, trip, ckpt, pc, out>>
RejectRow == /\ CanRead /\ Selected(pos + 1)
             /\ file' = Append(file, "bad")
             /\ invalid' = invalid + 1
             /\ UNCHANGED <<buf, batches, trip, ckpt, pc, out>>

Rank(b) == \E sc \in [Pairs -> Scores] : trip' = [p \in Pairs |-> Append(trip[p], sc[p])]
ProcessBatch == /\ pc = "loop" /\ Len(buf) >= MB
                /\ batches' = Append(batches, buf) /\ buf' = <<>>
                /\ Rank(buf)
                /\ ckpt' = IF Scoring THEN [p \in Pairs |-> Median2(trip'[p])] ELSE ckpt
                /\ UNCHANGED <<file, invalid, pc, out>>
CloseFile == /\ pc = "loop" /\ Len(buf) < MB /\ pc' = "closed"
             /\ UNCHANGED <<file, buf, batches, invalid, trip, ckpt, out>>
UseTail == IF TailGE THEN Len(buf) >= TailMin ELSE Len(buf) > TailMin
TailBatch == /\ pc = "closed" /\ UseTail
             /\ batches' = Append(batches, buf) /\ buf' = <<>>
             /\ Rank(buf)
             /\ ckpt' = [p \in Pairs |-> Median2(trip'[p])]        \* unconditional in the tail
             /\ pc' = "aggregate"
             /\ UNCHANGED <<file, invalid, out>>
DropTail == /\ pc = "closed" /\ ~UseTail /\ pc' = "aggregate"
            /\ UNCHANGED <<file, buf, batches, invalid, trip, ckpt, out>>
Aggregate == /\ pc = "aggregate" /\ batches # <<>>
             /\ out' = SortSeq(SetToSeq(Pairs), LAMBDA p, q : Medians[p] < Medians[q])
             /\ pc' = "written"
             /\ UNCHANGED <<file, buf, batches, invalid, trip, ckpt>>
NoRanking == /\ pc = "aggregate" /\ batches = <<>> /\ pc' = "exit"      \* 'No rankings were obtained'
             /\ UNCHANGED <<file, buf, batches, invalid, trip, ckpt, out>>

Next == ReadSkip \/ AcceptRow \/ RejectRow \/ ProcessBatch \/ CloseFile \/ TailBatch \/ DropTail \/ Aggregate \/ NoRanking
Spec == Init /\ [][Next]_vars
\* ---- liveness (checked under weak fairness of the loop): the task terminates - every run ends with the ranks written or with
\* the "no rankings" exit - and a full buffer is always processed (the polling loop of the real code has no other exit)
FairSpec == Spec /\ WF_vars(Next)
Terminates == <>(pc \in {"written", "exit"})
FullBufferProcessed == [](Len(buf) >= MB => <>(Len(buf) < MB))

\* ---- C08
ConsumedPrefix == IsPrefix(Flat(batches) \o buf, RefRows) /\ (pc = "loop" => Flat(batches) \o buf = RefRows)
ConsumedExactly == pc \in {"aggregate", "written", "exit"} => batches = RefBatches
BatchSizes == \A k \in DOMAIN batches : (k < Len(batches) \/ pc = "loop") => Len(batches[k]) = MB
InvalidCounted == invalid = RefInvalid
CheckpointIsMedianSoFar == (Scoring /\ batches # <<>>) => ckpt = Medians
FinalIsMedian == pc = "written" => \A p \in Pairs : Len(trip[p]) = Len(batches)
OutputAscending == pc = "written" => \A i \in 1..(Len(out) - 1) : Medians[out[i]] <= Medians[out[i + 1]]
OutputComplete == pc = "written" => {out[i] : i \in DOMAIN out} = Pairs /\ Len(out) = Cardinality(Pairs)
Emit == pc \in {"written", "exit"} => PrintT(<<"CASE", file, batches, invalid>>)
=============================================================================
