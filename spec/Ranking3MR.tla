---------------------------- MODULE Ranking3MR ----------------------------
(***************************************************************************)
(* importance_estimator.rank_features_3MR as a greedy machine:             *)
(*   Start(f)  f has maximal relevance                                     *)
(*   Pick(f)   f is a remaining feature maximising                         *)
(*             rel[f] - alpha*Agg(red, ranked, f) + beta*Agg(rln, ranked,f)*)
(* Agg = median | mean | sum over the pairs <<g, f>>, g already ranked,    *)
(* missing pairs = 0.  Ties are nondeterministic.  All arithmetic is exact:*)
(* alpha = An/2, beta = Bn/2 and every importance is multiplied by 4k      *)
(* (k = number of ranked features) to stay in the integers.                *)
(* The operators are shared with Trace3MR.tla.                             *)
(***************************************************************************)
EXTENDS Naturals, Integers, Sequences, FiniteSets, FiniteSetsExt, SequencesExt, TLC

CONSTANTS Features, RelVals, PairVals, Strategies, An, Bn,
          UseRed, UseRln      \* which pair dictionaries are enumerated (the other is empty)

VARIABLES pc, rel, red, rln, strategy, ranked
vars == <<pc, rel, red, rln, strategy, ranked>>

Get(d, k) == IF k \in DOMAIN d THEN d[k] ELSE 0
SortedInts(s) == SortSeq(s, LAMBDA a, b : a < b)
Median2(s) == LET t == SortedInts(s)  n == Len(s)
              IN IF n % 2 = 1 THEN 2 * t[(n + 1) \div 2] ELSE t[n \div 2] + t[n \div 2 + 1]
SumSeq(s) == FoldLeft(LAMBDA a, b : a + b, 0, s)
\* 2k * Agg
Agg2k(st, d, rk, f) == LET vals == [i \in DOMAIN rk |-> Get(d, <<rk[i], f>>)]  k == Len(rk)
                       IN CASE st = "median" -> k * Median2(vals)
                            [] st = "mean"   -> 2 * SumSeq(vals)
                            [] OTHER         -> 2 * k * SumSeq(vals)
\* 4k * importance
Imp4k(st, rl, rd, rn, an, bn, rk, f) == 4 * Len(rk) * rl[f] - an * Agg2k(st, rd, rk, f) + bn * Agg2k(st, rn, rk, f)
RangeOf(s) == {s[i] : i \in DOMAIN s}
Maximisers(st, rl, rd, rn, an, bn, rk, F) ==
    LET rest == F \ RangeOf(rk) IN
    IF rk = <<>> THEN {f \in F : \A g \in F : rl[g] <= rl[f]}
    ELSE {f \in rest : \A g \in rest : Imp4k(st, rl, rd, rn, an, bn, rk, g) <= Imp4k(st, rl, rd, rn, an, bn, rk, f)}

OrderedPairs == {<<g, f>> \in Features \X Features : g # f}
Init == /\ pc = "rel" /\ rel = <<>> /\ red = <<>> /\ rln = <<>> /\ strategy \in Strategies /\ ranked = <<>>
ChooseRel == /\ pc = "rel" /\ rel' \in [Features -> RelVals] /\ pc' = "red" /\ UNCHANGED <<red, rln, strategy, ranked>>
ChooseRed == /\ pc = "red" /\ (IF UseRed THEN red' \in [OrderedPairs -> PairVals] ELSE red' = <<>>)
             /\ pc' = "rln" /\ UNCHANGED <<rel, rln, strategy, ranked>>
ChooseRln == /\ pc = "rln" /\ (IF UseRln THEN rln' \in [OrderedPairs -> PairVals] ELSE rln' = <<>>)
             /\ pc' = "rank" /\ UNCHANGED <<rel, red, strategy, ranked>>
Pick(f) == /\ pc = "rank" /\ f \in Maximisers(strategy, rel, red, rln, An, Bn, ranked, Features)
           /\ ranked' = Append(ranked, f)
           /\ pc' = IF Len(ranked') = Cardinality(Features) THEN "done" ELSE "rank"
           /\ UNCHANGED <<rel, red, rln, strategy>>
Next == ChooseRel \/ ChooseRed \/ ChooseRln \/ (\E f \in Features : Pick(f))
Spec == Init /\ [][Next]_vars

\* ---- C17
IsPermutationPrefix == \A i, j \in DOMAIN ranked : i # j => ranked[i] # ranked[j]
Complete == pc = "done" => RangeOf(ranked) = Features
Progress == pc = "rank" => Maximisers(strategy, rel, red, rln, An, Bn, ranked, Features) # {}     \* never stuck before all are ranked
Emit == pc = "done" => PrintT(<<"CASE", strategy, rel, red, rln, ranked>>)
=============================================================================
