------------------------------ MODULE MIDefs ------------------------------
(***************************************************************************)
(* Constant-level definitions shared by MIEstimator, Scoring and the trace *)
(* modules: exact logarithm arithmetic over prime-exponent vectors and the *)
(* definitions of entropy, conditional entropy, plug-in mutual information *)
(* and the cardinality-corrected score.  Vectors are functions over 1..n   *)
(* (n <= N); every LogVec stands for  n * score.                           *)
(***************************************************************************)
EXTENDS Naturals, Integers, Sequences, FiniteSets, FiniteSetsExt, TLC

CONSTANT N      \* largest count whose logarithm is needed (number of rows)

----------------------------------------------------------------------------
(* exact logarithm arithmetic *)
Primes == {p \in 2..N : \A d \in 2..(p-1) : p % d # 0}
RECURSIVE Val(_, _)
Val(p, m) == IF m % p = 0 THEN 1 + Val(p, m \div p) ELSE 0
LogV(m)   == [p \in Primes |-> Val(p, m)]                 \* log m, m in 1..N
ZeroV     == [p \in Primes |-> 0]
AddV(a, b) == [p \in Primes |-> a[p] + b[p]]
ScaleV(k, a) == [p \in Primes |-> k * a[p]]
NegV(a) == ScaleV(-1, a)
SumV(T, F(_)) == FoldSet(LAMBDA e, s : AddV(F(e), s), ZeroV, T)

Vals(v) == {v[i] : i \in DOMAIN v}
Count(v, a) == Cardinality({i \in DOMAIN v : v[i] = a})
SeqSum(v) == FoldSet(LAMBDA i, s : v[i] + s, 0, DOMAIN v)

\* sum over the values a that g takes on the positions P of  cnt_a * (log cnt_a - log d)
TermD(g, P, d) ==
    SumV({g[i] : i \in P},
         LAMBDA a : LET k == Cardinality({i \in P : g[i] = a})
                    IN ScaleV(k, AddV(LogV(k), NegV(LogV(d)))))

----------------------------------------------------------------------------
(* DEFINITIONS the properties refer to (not shaped like the code)          *)

\* n * H(g)           (entropy in nats times n)
NEnt(g) == NegV(TermD(g, DOMAIN g, Cardinality(DOMAIN g)))
\* n * H(g | h)
NCondEnt(g, h) == NegV(SumV(Vals(h), LAMBDA b : LET P == {i \in DOMAIN h : h[i] = b}
                                                 IN TermD(g, P, Cardinality(P))))
\* n * I(g; h), plug-in: sum n_ab log n_ab - sum n_a log n_a - sum n_b log n_b + n log n
Joint(g, h) == {<<g[i], h[i]>> : i \in DOMAIN g}
NPlugin(g, h) ==
    LET n == Cardinality(DOMAIN g)
        nab(ab) == Cardinality({i \in DOMAIN g : g[i] = ab[1] /\ h[i] = ab[2]})
    IN AddV(AddV(SumV(Joint(g, h), LAMBDA ab : ScaleV(nab(ab), LogV(nab(ab)))),
                 ScaleV(n, LogV(n))),
            NegV(AddV(SumV(Vals(g), LAMBDA a : ScaleV(Count(g, a), LogV(Count(g, a)))),
                      SumV(Vals(h), LAMBDA b : ScaleV(Count(h, b), LogV(Count(h, b)))))))

\* the displaced copy: inside the group of rows sharing target value b, read the feature at the
\* row position advanced cyclically by the group's size
Displaced(g, h) == [i \in DOMAIN g |->
                      g[((i - 1 + Count(h, h[i])) % Cardinality(DOMAIN g)) + 1]]
NCorrected(g, h) == AddV(NCondEnt(Displaced(g, h), h), NegV(NCondEnt(g, h)))

\* the specified self-pair rule: element-wise identity, nothing else
SelfPair(g, h) == g = h

\* specified score (times n) without subsampling
SpecScore(g, h, cc) == IF cc /\ ~SelfPair(g, h) THEN NCorrected(g, h) ELSE NPlugin(g, h)

=============================================================================
