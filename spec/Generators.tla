----------------------------- MODULE Generators -----------------------------
(***************************************************************************)
(* synthetic_data_generators.cc_generator.CategoricalClassification        *)
(* Part "data":  generate_data as a cursor machine over the `structure`    *)
(*   FillGap          default features up to the next declared index       *)
(*   PlaceDeclared    a declared feature is written at the CURSOR          *)
(*   NextEntry        the next structure entry (single index or list)      *)
(*   FillRest         default features for the remaining columns           *)
(*   The declared indices must be strictly increasing and < NFeatures      *)
(*   (the only form the cursor design supports) - StructOK.                *)
(* Part "info":  dataset_info bookkeeping over a sequence of derived-      *)
(*   structure calls (Correlate / Duplicate / Combine), each appending     *)
(*   columns and one self-description record.                              *)
(***************************************************************************)
EXTENDS Naturals, Integers, Sequences, FiniteSets, FiniteSetsExt, SequencesExt, TLC

CONSTANTS Part, NFeatures, MaxEntries, AttrKinds,      \* data
          NSource, MaxCalls, DupInfoOneShort            \* info (+ named deviation: duplicate_indices one short)

VARIABLES pc, struct, ix, todo, pending, placed, ncols, info, colsrc
vars == <<pc, struct, ix, todo, pending, placed, ncols, info, colsrc>>

\* ---------------------------------------------------------------- data
\* an entry: [idx |-> sequence of column indices (0-based), single |-> BOOLEAN, attr |-> kind]
Flatten(s) == FoldLeft(LAMBDA acc, e : acc \o e.idx, <<>>, s)
Increasing(q) == \A i \in 1..(Len(q) - 1) : q[i] < q[i + 1]
StructOK(s) == Increasing(Flatten(s)) /\ \A i \in DOMAIN Flatten(s) : Flatten(s)[i] < NFeatures
IdxSeqs == {q \in UNION {[1..n -> 0..(NFeatures - 1)] : n \in 1..3} : Increasing(q)}
Entries == {[idx |-> q, single |-> sg, attr |-> a] : q \in IdxSeqs, sg \in BOOLEAN, a \in AttrKinds}
ValidEntries == {e \in Entries : e.single => Len(e.idx) = 1}

InitData == /\ pc = "struct" /\ struct = <<>> /\ ix = 0 /\ todo = <<>> /\ pending = <<>> /\ placed = <<>>
            /\ ncols = 0 /\ info = <<>> /\ colsrc = <<>>
AddEntry == /\ pc = "struct" /\ Len(struct) < MaxEntries
            /\ \E e \in ValidEntries : StructOK(Append(struct, e)) /\ struct' = Append(struct, e)
            /\ UNCHANGED <<pc, ix, todo, pending, placed, ncols, info, colsrc>>
Start == /\ pc = "struct" /\ pc' = "entry" /\ todo' = struct
         /\ UNCHANGED <<struct, ix, pending, placed, ncols, info, colsrc>>
\* `for data in structure`
NextEntry == /\ pc = "entry" /\ todo # <<>> /\ pending = <<>>
             /\ pending' = [k \in DOMAIN Head(todo).idx |-> <<Head(todo).idx[k], Len(struct) - Len(todo) + 1>>]
             /\ todo' = Tail(todo)
             /\ UNCHANGED <<pc, struct, ix, placed, ncols, info, colsrc>>
\* `if ix < feature_ix: for i in range(ix, feature_ix)` - one default feature per step
FillGap == /\ pc = "entry" /\ pending # <<>> /\ ix < Head(pending)[1]
           /\ placed' = Append(placed, <<"default", 0>>) /\ ix' = ix + 1
           /\ UNCHANGED <<pc, struct, todo, pending, ncols, info, colsrc>>
PlaceDeclared == /\ pc = "entry" /\ pending # <<>> /\ ix >= Head(pending)[1]
                 /\ placed' = Append(placed, <<"declared", Head(pending)[2]>>) /\ ix' = ix + 1       \* X[ix] = x
                 /\ pending' = Tail(pending)
                 /\ UNCHANGED <<pc, struct, todo, ncols, info, colsrc>>
EndStructure == /\ pc = "entry" /\ todo = <<>> /\ pending = <<>> /\ pc' = "rest"
                /\ UNCHANGED <<struct, ix, todo, pending, placed, ncols, info, colsrc>>
FillRest == /\ pc = "rest" /\ ix < NFeatures
            /\ placed' = Append(placed, <<"default", 0>>) /\ ix' = ix + 1
            /\ UNCHANGED <<pc, struct, todo, pending, ncols, info, colsrc>>
Return == /\ pc = "rest" /\ ix >= NFeatures /\ pc' = "done"
          /\ UNCHANGED <<struct, ix, todo, pending, placed, ncols, info, colsrc>>
NextData == AddEntry \/ Start \/ NextEntry \/ FillGap \/ PlaceDeclared \/ EndStructure \/ FillRest \/ Return

\* C19 (placement part)
ShapeExact == pc = "done" => Len(placed) = NFeatures
DeclaredAtDeclaredIndex == pc = "done" =>
    \A e \in DOMAIN struct : \A k \in DOMAIN struct[e].idx : placed[struct[e].idx[k] + 1] = <<"declared", e>>
OthersDefault == pc = "done" =>
    \A c \in 1..NFeatures : (~\E e \in DOMAIN struct : \E k \in DOMAIN struct[e].idx : struct[e].idx[k] + 1 = c) => placed[c] = <<"default", 0>>
EmitData == pc = "done" => PrintT(<<"DATA", struct, placed>>)

\* ---------------------------------------------------------------- info
Selections == {q \in UNION {[1..n -> 0..(NSource - 1)] : n \in 1..2} : \A i, j \in DOMAIN q : i # j => q[i] # q[j]}
Calls == {[op |-> o, sel |-> s] : o \in {"correlate", "duplicate", "combine"}, s \in Selections}
InitInfo == /\ pc = "calls" /\ struct = <<>> /\ ix = 0 /\ todo = <<>> /\ pending = <<>> /\ placed = <<>>
            /\ ncols = NSource /\ info = <<>> /\ colsrc = [c \in 1..NSource |-> <<"source", c - 1>>]
Added(call) == IF call.op = "combine" THEN 1 ELSE Len(call.sel)
NewCols(call) == [k \in 1..Added(call) |-> ncols + k - 1]                      \* 0-based indices of the appended columns
RecordedCols(call) == IF call.op = "duplicate" /\ DupInfoOneShort THEN SubSeq(NewCols(call), 1, Added(call) - 1) ELSE NewCols(call)
Apply(call) == /\ pc = "calls" /\ Len(info) < MaxCalls
               /\ info' = Append(info, [op |-> call.op, sel |-> call.sel, cols |-> RecordedCols(call)])
               /\ colsrc' = colsrc \o (IF call.op = "combine" THEN <<<<"combine", call.sel>>>>
                                        ELSE [k \in DOMAIN call.sel |-> <<call.op, call.sel[k]>>])
               /\ ncols' = ncols + Added(call)
               /\ UNCHANGED <<pc, struct, ix, todo, pending, placed>>
NextInfo == \E call \in Calls : Apply(call)
\* C20 (bookkeeping part)
InfoListsExactlyAddedColumns ==
    \A i \in DOMAIN info :
        LET before == NSource + FoldLeft(LAMBDA acc, j : acc + (IF info[j].op = "combine" THEN 1 ELSE Len(info[j].sel)), 0, [j \in 1..(i - 1) |-> j])
        IN info[i].cols = [k \in 1..(IF info[i].op = "combine" THEN 1 ELSE Len(info[i].sel)) |-> before + k - 1]
ColumnsAccounted == Len(colsrc) = ncols
EmitInfo == (pc = "calls" /\ info # <<>>) => PrintT(<<"INFO", info, ncols, colsrc>>)

Init == IF Part = "data" THEN InitData ELSE InitInfo
Next == IF Part = "data" THEN NextData ELSE NextInfo
Spec == Init /\ [][Next]_vars
=============================================================================
