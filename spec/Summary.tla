------------------------------ MODULE Summary ------------------------------
(***************************************************************************)
(* task_summary.outrank_task_result_summary as a function of the table     *)
(* pairwise_ranks.tsv, for exhaustive small tables:                        *)
(*   LabelRows -> PerFeatureMedian -> SortDescending -> MinMax (MI names)  *)
(*   -> PerConstituentMedian over the interaction features (order > 1).    *)
(* The table is built row by row from RowChoices (feature ids 1..NF, id 0  *)
(* = the label, id NF+1 = the interaction feature "1 AND 2"); rows are     *)
(* kept in non-decreasing choice order (the summary does not depend on the *)
(* row order).  Medians are kept doubled (integers).                       *)
(***************************************************************************)
EXTENDS Naturals, Integers, Sequences, FiniteSets, FiniteSetsExt, SequencesExt, TLC

CONSTANTS NF, ScoreVals, MaxTableRows
VARIABLES table
Label == 0
Inter == NF + 1                          \* the interaction feature of features 1 and 2
Names == 0..(NF + 1)
RowChoices == {<<a, b, s>> : a \in Names, b \in Names, s \in ScoreVals}
RowLess(r, q) == \/ r[1] < q[1] \/ (r[1] = q[1] /\ r[2] < q[2]) \/ (r[1] = q[1] /\ r[2] = q[2] /\ r[3] <= q[3])
Init == table = <<>>
AddRow == /\ Len(table) < MaxTableRows
          /\ \E r \in RowChoices : (IF table = <<>> THEN TRUE ELSE RowLess(table[Len(table)], r)) /\ table' = Append(table, r)
Next == AddRow
Spec == Init /\ [][Next]_table

RangeOf(s) == {s[i] : i \in DOMAIN s}
SortedInts(s) == SortSeq(s, LAMBDA a, b : a < b)
Median2(s) == LET t == SortedInts(s)  n == Len(s)
              IN IF n % 2 = 1 THEN 2 * t[(n + 1) \div 2] ELSE t[n \div 2] + t[n \div 2 + 1]
LabelScores(f) == LET rows == SelectSeq(table, LAMBDA t : (t[1] = Label /\ t[2] = f) \/ (t[1] # Label /\ t[2] = Label /\ t[1] = f))
                  IN [i \in DOMAIN rows |-> rows[i][3]]
LabelFeatures == {f \in Names : LabelScores(f) # <<>>}
Med2(f) == Median2(LabelScores(f))
\* every feature scored against the label exactly once, with its doubled median
Expected == [f \in LabelFeatures |-> Med2(f)]
Constituents(f) == IF f = Inter THEN {1, 2} ELSE {}
\* sanity properties of the definition
LabelRowsOnly == \A f \in LabelFeatures : \E i \in DOMAIN table : table[i][1] = Label \/ table[i][2] = Label
MedianWithinRange == \A f \in LabelFeatures : \E i \in DOMAIN table : 2 * table[i][3] <= Med2(f) /\ \E j \in DOMAIN table : 2 * table[j][3] >= Med2(f)
Emit == table # <<>> => PrintT(<<"CASE", table, Expected>>)
=============================================================================
