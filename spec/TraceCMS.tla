------------------------------ MODULE TraceCMS ------------------------------
(* Traces of the real CountMinSketch.  ndjson:                                            *)
(*  {"e":"begin","depth":d}                                                               *)
(*  {"e":"update","item":id,"w":w,"locs":[l_1..l_d],                                      *)
(*   "queries":[[id, [locs], result],...], "rowsums":[...]}                               *)
(* locs are the locations cms_hash gives for the item under the sketch's seeds (computed  *)
(* by the harness with the real hash function); queries are the real query() results for  *)
(* every item seen so far and one unseen item.  The model keeps the touched cells and     *)
(* accepts an event iff it is CMS.tla's Update under a FUNCTION Hash (an item always has  *)
(* the same locations: update and query agree) and the invariants hold.                   *)
EXTENDS Naturals, Integers, Sequences, FiniteSets, FiniteSetsExt, TLC, Json, IOUtils
VARIABLES l, cell, hashf, truth, total, depth
Trace == ndJsonDeserialize(IOEnv.TRACE_FILE)
Get(f, k) == IF k \in DOMAIN f THEN f[k] ELSE 0
Init == l = 1 /\ cell = <<>> /\ hashf = <<>> /\ truth = <<>> /\ total = 0 /\ depth = 0
Begin == /\ l <= Len(Trace) /\ Trace[l].e = "begin"
         /\ cell' = <<>> /\ hashf' = <<>> /\ truth' = <<>> /\ total' = 0 /\ depth' = Trace[l].depth /\ l' = l + 1
Update == /\ l <= Len(Trace) /\ Trace[l].e = "update"
          /\ LET ev == Trace[l]
                 touched == {<<i, ev.locs[i]>> : i \in 1..depth}
                 c1 == [k \in (DOMAIN cell) \cup touched |-> Get(cell, k) + (IF k \in touched THEN ev.w ELSE 0)]
                 h1 == [x \in (DOMAIN hashf) \cup {ev.item} |-> IF x = ev.item THEN ev.locs ELSE hashf[x]]
                 t1 == [x \in (DOMAIN truth) \cup {ev.item} |-> Get(truth, x) + (IF x = ev.item THEN ev.w ELSE 0)]
                 q(locs) == Min({Get(c1, <<i, locs[i]>>) : i \in 1..depth})
             IN /\ Len(ev.locs) = depth /\ ev.w >= 0
                /\ (ev.item \in DOMAIN hashf => hashf[ev.item] = ev.locs)          \* Hash is a function
                /\ \A j \in DOMAIN ev.queries :
                      LET qq == ev.queries[j] IN
                      /\ (qq[1] \in DOMAIN h1 => h1[qq[1]] = qq[2])                \* query uses the update's locations
                      /\ qq[3] = q(qq[2])                                          \* query = min over the rows
                      /\ qq[3] >= Get(t1, qq[1])                                   \* NeverUnder
                      /\ qq[3] <= total + ev.w                                     \* NeverOverTotal
                /\ \A i \in DOMAIN ev.rowsums : ev.rowsums[i] = total + ev.w       \* RowSumsAreTotal
                /\ Len(ev.rowsums) = depth
                /\ cell' = c1 /\ hashf' = h1 /\ truth' = t1 /\ total' = total + ev.w
          /\ depth' = depth /\ l' = l + 1
Next == Begin \/ Update
Spec == Init /\ [][Next]_<<l, cell, hashf, truth, total, depth>>
Accepted == TLCGet("stats").diameter - 1 = Len(Trace)
=============================================================================
