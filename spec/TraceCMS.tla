------------------------------ MODULE TraceCMS ------------------------------
(* Traces of the real CountMinSketch.  ndjson:                                            *)
(*  {"e":"begin","depth":d}                                                               *)
(*  {"e":"update","items":[id,...],"w":w,"queries":[[id, result],...], "rowsums":[...]}    *)
(* one call: add(x, w) has items = [x]; batch_add(lst, w) carries the whole list (every   *)
(* occurrence of an item adds w to its true weight, and w to the total)                   *)
(* queries are the real query() results, after the update, for every item seen so far     *)
(* and for one item never added (id 0).  TLC keeps the ghosts of CMS.tla (truth per item, *)
(* total weight) and accepts an event iff the property's clauses hold on it: NeverUnder,  *)
(* NeverOverTotal, RowSumsAreTotal.  (Which cells the implementation touches is not       *)
(* constrained: any sketch with one-sided error is accepted.)                             *)
EXTENDS Naturals, Integers, Sequences, FiniteSets, FiniteSetsExt, TLC, Json, IOUtils
VARIABLES l, truth, total, depth
Trace == ndJsonDeserialize(IOEnv.TRACE_FILE)
Get(f, k) == IF k \in DOMAIN f THEN f[k] ELSE 0
Init == l = 1 /\ truth = <<>> /\ total = 0 /\ depth = 0
Begin == /\ l <= Len(Trace) /\ Trace[l].e = "begin"
         /\ truth' = <<>> /\ total' = 0 /\ depth' = Trace[l].depth /\ l' = l + 1
Update == /\ l <= Len(Trace) /\ Trace[l].e = "update"
          /\ LET ev == Trace[l]
                 its == {ev.items[k] : k \in DOMAIN ev.items}
                 t1 == [x \in (DOMAIN truth) \cup its |-> Get(truth, x) + ev.w * Cardinality({k \in DOMAIN ev.items : ev.items[k] = x})]
                 tot1 == total + ev.w * Len(ev.items)
             IN /\ ev.w >= 0
                /\ \A j \in DOMAIN ev.queries :
                      LET qq == ev.queries[j] IN
                      /\ qq[2] >= Get(t1, qq[1])                                   \* NeverUnder
                      /\ qq[2] <= tot1                                     \* NeverOverTotal
                /\ \A x \in its : \E j \in DOMAIN ev.queries : ev.queries[j][1] = x        \* the updated items were queried
                /\ Len(ev.rowsums) = depth
                /\ \A i \in DOMAIN ev.rowsums : ev.rowsums[i] = tot1       \* RowSumsAreTotal
                /\ truth' = t1 /\ total' = tot1
          /\ depth' = depth /\ l' = l + 1
Next == Begin \/ Update
Spec == Init /\ [][Next]_<<l, truth, total, depth>>
Accepted == TLCGet("stats").diameter - 1 = Len(Trace)
=============================================================================
