--------------------------- MODULE MIEstimator ---------------------------
(***************************************************************************)
(* The numba mutual-information estimator of OutRank                       *)
(* (outrank/algorithms/feature_ranking/ranking_mi_numba.py), modelled at   *)
(* the grain of the code: histogram of the target, stratified prefix       *)
(* sampling into an index buffer, self-pair detection, one step per        *)
(* distinct target value accumulating the conditional entropy of the       *)
(* feature and of its displaced copy, final combination.                   *)
(*                                                                         *)
(* Reals: every result is  (1/n) * sum_c k_c * log c  with integer k_c and *)
(* integer counts c <= n.  log c = sum_p v_p(c) log p and the logs of the  *)
(* primes are linearly independent over Q, so such a number is represented *)
(* EXACTLY by its coefficient vector over the primes <= n ("LogVec"), and  *)
(* equality of vectors is equality of reals.  All vectors below stand for  *)
(* n * (score / ratio).                                                    *)
(*                                                                         *)
(* Argument naming follows the code: mutual_info_estimator_numba(Y, X):    *)
(* Y is the feature, X the conditioning target.                            *)
(***************************************************************************)
EXTENDS MIDefs      \* CONSTANT N = number of rows

CONSTANTS
    K,                  \* codes are 0..K-1
    Canon,              \* TRUE: only canonical (restricted-growth) vectors are enumerated
    Flags,              \* subset of BOOLEAN: cardinality_correction values explored
    Ratios,             \* numerators r of the sampling ratio r/Den explored (Den = no subsampling)
    Den,                \* denominator of the ratio (a power of two: float32-exact)
    GatherWholeBuffer,  \* named deviation: read the whole index buffer, not the written prefix
    DetectBeforeSampling,\* named deviation: self-pair detection on the unsampled vectors
    DetectBySum         \* named deviation: self-pair detection by equal code sums

VARIABLES pc, y, x, c, rnum, buf, off, todo, S, eff, acc

vars == <<pc, y, x, c, rnum, buf, off, todo, S, eff, acc>>

Rows == 1..N
Codes == 0..(K-1)

----------------------------------------------------------------------------
(* vectors *)
IsRGS(v) == v[1] = 0 /\ \A i \in 2..N : \E j \in 1..(i-1) : v[i] <= v[j] + 1
Vec  == IF Canon THEN {v \in [Rows -> Codes] : IsRGS(v)} ELSE [Rows -> Codes]

----------------------------------------------------------------------------
(* subsampling: definitions *)
Final(r) == (r * N) \div Den                         \* int(float32(r/Den) * n), exact for dyadic r
Quota(xv, r) == Final(r) \div Cardinality(Vals(xv))
RowsOf(xv, b) == {i \in Rows : xv[i] = b}
FirstQ(T, q) == {i \in T : Cardinality({j \in T : j < i}) < q}        \* the q smallest of T
SetToSeqAsc(T) == LET RECURSIVE F(_)
                      F(U) == IF U = {} THEN <<>>
                              ELSE LET m == Min(U) IN <<m>> \o F(U \ {m})
                  IN F(T)
AllRows == [i \in Rows |-> i]
\* the specified sample: per distinct target value in ascending order the first Quota rows
\* carrying it; all rows when the quota is 0 (or when there is no subsampling)
SpecSample(xv, r) ==
    IF r >= Den \/ Quota(xv, r) = 0 THEN AllRows
    ELSE LET RECURSIVE G(_)
             G(U) == IF U = {} THEN <<>>
                     ELSE LET b == Min(U)
                          IN SetToSeqAsc(FirstQ(RowsOf(xv, b), Quota(xv, r))) \o G(U \ {b})
         IN G(Vals(xv))

Pick(v, s) == [j \in 1..Len(s) |-> v[s[j]]]          \* v restricted to the sample, sample order

\* what the code computes on a sample s (counts and histogram of the FULL target are kept):
\* "spec drift" material - the property does not fix this formula, the spec records it.
SampleScore(g, h, cc, s) ==
    LET gs == Pick(g, s)
        hs == Pick(h, s)
        m  == Len(s)
        J  == 1..m
        strata == {b \in Vals(h) : Count(h, b) # 1}
        P(b) == {j \in J : hs[j] = b}
        spoof(b) == [j \in J |-> gs[((j - 1 + Count(h, b)) % m) + 1]]
        cond == SumV(strata, LAMBDA b : TermD(gs, P(b), Count(h, b)))
        bg   == SumV(strata, LAMBDA b : TermD(spoof(b), P(b), Count(h, b)))
        full == NegV(TermD(gs, J, N))
    IN IF cc /\ ~(gs = hs) THEN AddV(cond, NegV(bg)) ELSE AddV(full, cond)

----------------------------------------------------------------------------
(* the machine *)
Unwritten == 0

Init == /\ pc = "choose_y" /\ y = <<>> /\ x = <<>> /\ c = FALSE /\ rnum = Den
        /\ buf = <<>> /\ off = 0 /\ todo = {} /\ S = <<>> /\ eff = FALSE /\ acc = ZeroV

ChooseY == /\ pc = "choose_y" /\ y' \in Vec /\ pc' = "choose_x"
           /\ UNCHANGED <<x, c, rnum, buf, off, todo, S, eff, acc>>
ChooseX == /\ pc = "choose_x" /\ x' \in Vec /\ pc' = "params"
           /\ UNCHANGED <<y, c, rnum, buf, off, todo, S, eff, acc>>

\* entry of mutual_info_estimator_numba: histogram of X, decision whether to subsample
Enter == /\ pc = "params"
         /\ c' \in Flags /\ rnum' \in Ratios
         /\ IF rnum' < Den /\ Quota(x, rnum') > 0
            THEN /\ buf' = [j \in 1..Final(rnum') |-> Unwritten]      \* np.empty(final_space_size)
                 /\ off' = 0 /\ todo' = Vals(x) /\ S' = S /\ pc' = "write"
            ELSE /\ S' = AllRows /\ pc' = "detect" /\ UNCHANGED <<buf, off, todo>>
         /\ UNCHANGED <<y, x, eff, acc>>

\* one iteration of `for fval in _f_values_X`
WritePrefix ==
    /\ pc = "write" /\ todo # {}
    /\ LET b == Min(todo)
           idx == SetToSeqAsc(FirstQ(RowsOf(x, b), Quota(x, rnum)))
       IN /\ buf' = [j \in DOMAIN buf |-> IF j > off /\ j <= off + Len(idx) THEN idx[j - off] ELSE buf[j]]
          /\ off' = off + Len(idx)
          /\ todo' = todo \ {b}
    /\ UNCHANGED <<pc, y, x, c, rnum, S, eff, acc>>

\* X[final_index_array], Y[final_index_array]
Gather == /\ pc = "write" /\ todo = {}
          /\ S' = IF GatherWholeBuffer THEN buf ELSE SubSeq(buf, 1, off)
          /\ pc' = "detect"
          /\ UNCHANGED <<y, x, c, rnum, buf, off, todo, eff, acc>>

Initialised == \A j \in DOMAIN S : S[j] # Unwritten

\* "Diagonal entries": is the pair a feature scored against itself?
Detect ==
    /\ pc = "detect"
    /\ Initialised                     \* the model stops where the code would read garbage
    /\ LET gs == IF DetectBeforeSampling THEN y ELSE Pick(y, S)
           hs == IF DetectBeforeSampling THEN x ELSE Pick(x, S)
           self == IF DetectBySum THEN SeqSum(hs) - SeqSum(gs) = 0 ELSE gs = hs
       IN eff' = (c /\ ~self)
    /\ acc' = IF eff' THEN ZeroV ELSE NegV(TermD(Pick(y, S), 1..Len(S), N))    \* full_entropy loop
    /\ todo' = Vals(x)                                                          \* f_values of the full X
    /\ pc' = "entropy"
    /\ UNCHANGED <<y, x, c, rnum, buf, off, S>>

\* one iteration of `for f_index in prange(len(f_values))`
StratumStep ==
    /\ pc = "entropy" /\ todo # {}
    /\ LET b  == Min(todo)
           nb == Count(x, b)
           gs == Pick(y, S)
           hs == Pick(x, S)
           m  == Len(S)
           P  == {j \in 1..m : hs[j] = b}
           spoof == [j \in 1..m |-> gs[((j - 1 + nb) % m) + 1]]
       IN /\ acc' = IF nb = 1 THEN acc                                   \* `continue`
                    ELSE IF eff THEN AddV(acc, AddV(TermD(gs, P, nb), NegV(TermD(spoof, P, nb))))
                    ELSE AddV(acc, TermD(gs, P, nb))
          /\ todo' = todo \ {b}
    /\ UNCHANGED <<pc, y, x, c, rnum, buf, off, S, eff>>

Return == /\ pc = "entropy" /\ todo = {} /\ pc' = "done"
          /\ UNCHANGED <<y, x, c, rnum, buf, off, todo, S, eff, acc>>

Next == ChooseY \/ ChooseX \/ Enter \/ WritePrefix \/ Gather \/ Detect \/ StratumStep \/ Return
Spec == Init /\ [][Next]_vars

Done == pc = "done"
NoSub == rnum = Den

----------------------------------------------------------------------------
(* C01 *)
PlainIsPlugin  == Done /\ NoSub /\ ~c => acc = NPlugin(y, x)
Symmetric      == Done /\ NoSub /\ ~c => NPlugin(y, x) = NPlugin(x, y)
ConstantZero   == Done /\ NoSub /\ ~c /\ (Cardinality(Vals(y)) = 1 \/ Cardinality(Vals(x)) = 1) => acc = ZeroV
SelfIsEntropy  == Done /\ NoSub /\ y = x => acc = NEnt(y)
PluginIsEntropyDifference == Done /\ NoSub => NPlugin(y, x) = AddV(NEnt(y), NegV(NCondEnt(y, x)))

(* C02 *)
Relabel(f, v) == [i \in DOMAIN v |-> f[v[i]]]
Injections == Permutations(Codes)
ResultIsSpec == Done /\ NoSub => acc = SpecScore(y, x, c)
ShortcutExact == pc \in {"entropy", "done"} /\ NoSub => eff = (c /\ ~SelfPair(y, x))
RelabelInvariant ==
    Done /\ NoSub =>
        \A f \in Injections : \A g \in Injections :
            (SelfPair(Relabel(f, y), Relabel(g, x)) = SelfPair(y, x))
                => SpecScore(Relabel(f, y), Relabel(g, x), c) = acc

(* C03 *)
CorrectedIsDifference == Done /\ NoSub /\ c /\ y # x => acc = NCorrected(y, x)
ConstantFeatureZero   == Done /\ NoSub /\ c /\ y # x /\ Cardinality(Vals(y)) = 1 => acc = ZeroV
AllDistinctFeatureZero == Done /\ NoSub /\ c /\ y # x /\ Cardinality(Vals(y)) = N => acc = ZeroV

(* C04 *)
NoUninitialisedRead == pc \in {"detect", "entropy", "done"} => Initialised
SampleIsPrefixes == pc \in {"detect", "entropy", "done"} => S = SpecSample(x, rnum)
InRange == pc \in {"detect", "entropy", "done"} => \A j \in DOMAIN S : S[j] \in Rows \cup {Unwritten}
ResultIsSampleScore == Done => acc = SampleScore(y, x, c, S)
SampleRows == {S[j] : j \in DOMAIN S}
SampleOnly ==
    Done => \A alt \in [Rows \ SampleRows -> Codes] :
               LET y2 == [i \in Rows |-> IF i \in SampleRows THEN y[i] ELSE alt[i]]
               IN SampleScore(y2, x, c, SpecSample(x, rnum)) = acc

----------------------------------------------------------------------------
(* emission: last INVARIANT of a cfg; one line per finished computation *)
Emit == Done => PrintT(<<"CASE", y, x, c, rnum, S, acc>>)
=============================================================================
