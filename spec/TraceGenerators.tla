-------------------------- MODULE TraceGenerators --------------------------
(* Validation of recorded calls of the real synthetic-data generators (C19, C20).        *)
(* Every ndjson record carries what the harness measured on the real arrays; TLC decides *)
(* the property's clause on it.  Kinds:                                                  *)
(*  data:  {"nf","ns","shape":[r,c],"int32":bool,"cols":[{"vals":[distinct values],       *)
(*          "domain":[declared domain] | [], "lo","hi","card" (random-draw domains),      *)
(*          "ensure":bool}], "same_again":bool}                                           *)
(*  corr:  {"r1e6": round(r*1e6), "obs1e6":[observed Pearson*1e6 per generated column]}   *)
(*  dup:   {"equal":[bool per duplicated column]}                                         *)
(*  comb:  {"equal":bool}   the appended column equals the stated function of its sources *)
(*  label: {"n":classes,"sorted_y":[labels ordered by decision value],"counts":[per class],*)
(*          "want1e6":[requested proportion*1e4 per class],"ties":bool}                   *)
(*  noise: {"budget":floor(p*n),"changed":[cells changed per feature],"outside":[new      *)
(*          values outside the feature's own value set per feature],"untouched":bool}     *)
(*  missing: {"budget":..,"markers":[per feature],"other_changes":int,"untouched":bool}   *)
(*  down:  {"per_class":k,"counts":[rows per class],"foreign":rows not drawn from the     *)
(*          class, "shape_ok":bool}                                                       *)
EXTENDS Naturals, Integers, Sequences, FiniteSets, FiniteSetsExt, TLC, Json, IOUtils
VARIABLE l
Trace == ndJsonDeserialize(IOEnv.TRACE_FILE)
RangeOf(s) == {s[i] : i \in DOMAIN s}
Abs(x) == IF x < 0 THEN -x ELSE x
SumSeq(s) == IF s = <<>> THEN 0 ELSE LET RECURSIVE S(_) S(i) == IF i = 0 THEN 0 ELSE s[i] + S(i - 1) IN S(Len(s))

DataOK(r) ==
    /\ r.shape = <<r.ns, r.nf>> /\ r.int32                                           \* ShapeExact, 32-bit integers
    /\ Len(r.cols) = r.nf
    /\ r.same_again                                                                   \* SeedDeterminism
    /\ \A k \in DOMAIN r.cols :
         LET c == r.cols[k]  V == RangeOf(c.vals) IN
         IF c.domain # <<>>
         THEN /\ V \subseteq RangeOf(c.domain)                                       \* ValuesInDomain
              /\ (c.ensure /\ Cardinality(RangeOf(c.domain)) <= r.ns => V = RangeOf(c.domain))   \* AllRepresentedWhenPossible
         ELSE /\ \A v \in V : v >= c.lo /\ v <= c.hi                                 \* random draw within the bounds
              /\ Cardinality(V) <= c.card
              /\ (c.ensure /\ c.card <= r.ns => Cardinality(V) = c.card)
CorrOK(r) == \A i \in DOMAIN r.obs1e6 : Abs(r.obs1e6[i] - r.r1e6) <= 2
DupOK(r) == \A i \in DOMAIN r.equal : r.equal[i]
LabelOK(r) ==
    /\ \A i \in 1..(Len(r.sorted_y) - 1) : r.sorted_y[i] <= r.sorted_y[i + 1]         \* monotone step function of the decision value
    /\ RangeOf(r.sorted_y) \subseteq 0..(r.n - 1)
    /\ (~r.ties => \A k \in DOMAIN r.counts :
            Abs(r.counts[k] * 10000 - r.want1e6[k] * Len(r.sorted_y)) <= 10000 + Len(r.sorted_y))   \* within one sample of the requested share
NoiseOK(r) == /\ \A i \in DOMAIN r.changed : r.changed[i] <= r.budget
              /\ \A i \in DOMAIN r.outside : r.outside[i] = 0
              /\ r.untouched
MissingOK(r) == /\ \A i \in DOMAIN r.markers : r.markers[i] = r.budget
                /\ r.other_changes = 0 /\ r.untouched
DownOK(r) == /\ \A i \in DOMAIN r.counts : r.counts[i] = r.per_class
             /\ r.foreign = 0 /\ r.shape_ok
RecordOK(r) == CASE r.kind = "data" -> DataOK(r) [] r.kind = "corr" -> CorrOK(r) [] r.kind = "dup" -> DupOK(r)
                 [] r.kind = "comb" -> r.equal [] r.kind = "label" -> LabelOK(r) [] r.kind = "noise" -> NoiseOK(r)
                 [] r.kind = "missing" -> MissingOK(r) [] r.kind = "down" -> DownOK(r) [] OTHER -> FALSE
Init == l = 1
Next == l <= Len(Trace) /\ RecordOK(Trace[l]) /\ l' = l + 1
Spec == Init /\ [][Next]_l
Accepted == TLCGet("stats").diameter - 1 = Len(Trace)
=============================================================================
