-------------------------------- MODULE HLL --------------------------------
(***************************************************************************)
(* algorithms/sketches/counting_ultiloglog.HyperLogLogWCache: a set of     *)
(* the values seen so far while it holds at most Cap values ("warm-up"),   *)
(* converted into M registers when the (Cap+1)-th DISTINCT value arrives;  *)
(* afterwards linear counting on the number of empty registers.            *)
(* A 32-bit hash leaves at least 32 leading "width" bits, so every hashed  *)
(* value makes its register non-zero: only the SET of touched buckets      *)
(* matters for len().                                                      *)
(***************************************************************************)
EXTENDS Naturals, Integers, Sequences, FiniteSets, FiniteSetsExt, TLC

CONSTANTS Vals,        \* values that may be added
          Cap,         \* warmup_size
          M,           \* number of registers
          Bucket,      \* [Vals -> 0..M-1]: measured from the real hash by the harness
          Est,         \* [0..M -> Nat]: int(ceil(M * ln(M / zeros))) - 1 (2^p for zeros = 0), computed by the harness
          MaxLen,
          ConvertOnDuplicate,  \* named deviation: a full warm-up set converts on ANY add, even of a value already present
          DropTrigger          \* named deviation: the value that triggers the conversion is not hashed

VARIABLES phase, warm, nz, seen, hist
vars == <<phase, warm, nz, seen, hist>>

Size == IF phase = "warm" THEN Cardinality(warm) ELSE Est[M - Cardinality(nz)]
Buckets(S) == {Bucket[v] : v \in S}

Init == phase = "warm" /\ warm = {} /\ nz = {} /\ seen = {} /\ hist = <<>>

AddWarm(v) == /\ phase = "warm"
              /\ (Cardinality(warm) < Cap \/ (v \in warm /\ ~ConvertOnDuplicate))
              /\ warm' = warm \cup {v}
              /\ UNCHANGED <<phase, nz>>
Convert(v) == /\ phase = "warm"
              /\ Cardinality(warm) >= Cap /\ (v \notin warm \/ ConvertOnDuplicate)
              /\ nz' = Buckets(IF DropTrigger THEN warm ELSE warm \cup {v})
              /\ warm' = {} /\ phase' = "hll"
AddHLL(v) == /\ phase = "hll"
             /\ nz' = nz \cup {Bucket[v]}
             /\ UNCHANGED <<phase, warm>>
Add(v) == /\ Len(hist) < MaxLen
          /\ (AddWarm(v) \/ Convert(v) \/ AddHLL(v))
          /\ seen' = seen \cup {v}
          /\ hist' = Append(hist, v)
Next == \E v \in Vals : Add(v)
Spec == Init /\ [][Next]_vars

\* ---- C14
ExactWhileWarm == Cardinality(seen) <= Cap => (phase = "warm" /\ Size = Cardinality(seen))
ConversionLosesNothing == phase = "hll" => nz = Buckets(seen)
DuplicateBlind == [][\A v \in Vals : (v \in seen /\ hist' = Append(hist, v)) =>
                        (IF phase' = "warm" THEN Cardinality(warm') ELSE Est[M - Cardinality(nz')]) = Size]_vars
\* size is a function of the SET of values seen (hence of no order) in the exact range
OrderIndependentWhileExact == Cardinality(seen) <= Cap => Size = Cardinality(seen)
Emit == hist # <<>> => PrintT(<<"CASE", hist, phase, warm, nz, Size>>)
=============================================================================
