---------------------------- MODULE CMSInductive ----------------------------
(***************************************************************************)
(* Unbounded-stream argument for C15 (count-min part): NeverUnder,         *)
(* NeverOverTotal and RowSumsAreTotal of CMS.tla follow from an INDUCTIVE  *)
(* invariant, checked by Apalache for arbitrary (unbounded) cell values:   *)
(*    apalache-mc check --init=IndInit --inv=IndInv --length=1   (step)    *)
(*    apalache-mc check --init=Init    --inv=IndInv --length=0   (base)    *)
(* for a fixed small geometry (D rows, W cells, the items) and EVERY hash  *)
(* function (hashf is unconstrained in IndInit), weights 0..2, single      *)
(* updates and whole-list batch updates.  TLC (CMS.tla) covers the same    *)
(* machine for bounded streams; this module removes the stream bound.      *)
(***************************************************************************)
EXTENDS Integers, Sequences, FiniteSets, Apalache

Rows == 1..2
Locs == 0..2
Items == {"a", "b", "c"}
Weights == 0..2

VARIABLES
    \* @type: Str -> (Int -> Int);
    hashf,
    \* @type: Int -> (Int -> Int);
    Mx,
    \* @type: Str -> Int;
    truth,
    \* @type: Int;
    total

Init == /\ hashf \in [Items -> [Rows -> Locs]]
        /\ Mx = [i \in Rows |-> [j \in Locs |-> 0]]
        /\ truth = [x \in Items |-> 0] /\ total = 0

Update(x, w) == /\ Mx' = [i \in Rows |-> [j \in Locs |-> IF j = hashf[x][i] THEN Mx[i][j] + w ELSE Mx[i][j]]]
                /\ truth' = [truth EXCEPT ![x] = @ + w]
                /\ total' = total + w
                /\ UNCHANGED hashf
\* a batch of two items (equal or different, colliding or not): every element adds w at its own location
Batch2(x, y, w) == /\ Mx' = [i \in Rows |-> [j \in Locs |->
                               Mx[i][j] + (IF j = hashf[x][i] THEN w ELSE 0) + (IF j = hashf[y][i] THEN w ELSE 0)]]
                   /\ truth' = [z \in Items |-> truth[z] + (IF z = x THEN w ELSE 0) + (IF z = y THEN w ELSE 0)]
                   /\ total' = total + 2 * w
                   /\ UNCHANGED hashf
Next == \/ \E x \in Items : \E w \in Weights : Update(x, w)
        \/ \E x \in Items : \E y \in Items : \E w \in Weights : Batch2(x, y, w)

\* named deviation (BatchCellOnce of CMS.tla): a vectorised batch touches every cell at most once per call
Batch2Once(x, y, w) == /\ Mx' = [i \in Rows |-> [j \in Locs |-> Mx[i][j] + (IF j = hashf[x][i] \/ j = hashf[y][i] THEN w ELSE 0)]]
                       /\ truth' = [z \in Items |-> truth[z] + (IF z = x THEN w ELSE 0) + (IF z = y THEN w ELSE 0)]
                       /\ total' = total + 2 * w
                       /\ UNCHANGED hashf
NextDev == \E x \in Items : \E y \in Items : \E w \in Weights : Batch2Once(x, y, w)
NonVacuous == total # 5         \* must be VIOLATED from IndInit (the inductive hypothesis is satisfiable with non-trivial values)

\* cell (i, j) holds exactly the weight of the items hashed there
CellSum(i, j) == (IF hashf["a"][i] = j THEN truth["a"] ELSE 0) + (IF hashf["b"][i] = j THEN truth["b"] ELSE 0)
                 + (IF hashf["c"][i] = j THEN truth["c"] ELSE 0)
IndInv == /\ hashf \in [Items -> [Rows -> Locs]]
          /\ DOMAIN Mx = Rows /\ (\A i \in Rows : DOMAIN Mx[i] = Locs) /\ DOMAIN truth = Items
          /\ \A x \in Items : truth[x] >= 0
          /\ total = truth["a"] + truth["b"] + truth["c"]
          /\ \A i \in Rows : \A j \in Locs : Mx[i][j] = CellSum(i, j)
TypeOK == /\ DOMAIN Mx = Rows /\ \A i \in Rows : DOMAIN Mx[i] = Locs
          /\ DOMAIN truth = Items
IndInit == /\ hashf \in [Items -> [Rows -> Locs]]
           /\ Mx = Gen(3) /\ truth = Gen(3) /\ total = Gen(1)       \* arbitrary values of the declared types
           /\ TypeOK
           /\ IndInv

\* ---- C15, as consequences of IndInv (checked with --init=IndInit --inv=... --length=0)
QueryAt(x, i) == Mx[i][hashf[x][i]]
NeverUnder == \A x \in Items : \A i \in Rows : QueryAt(x, i) >= truth[x]
NeverOverTotal == \A x \in Items : \A i \in Rows : QueryAt(x, i) <= total
RowSumsAreTotal == \A i \in Rows : Mx[i][0] + Mx[i][1] + Mx[i][2] = total
Consequences == NeverUnder /\ NeverOverTotal /\ RowSumsAreTotal
=============================================================================
