---------------------------- MODULE Transformers ----------------------------
(***************************************************************************)
(* feature_transformations.ranking_transformers.FeatureTransformerGeneric: *)
(*  (1) the preset list "p1,p2,..." selects the UNION of the presets       *)
(*      (one action per namespace of the list, as the constructor loops);  *)
(*  (2) the keep/drop rule of construct_new_features on the multiset of    *)
(*      output symbols of a transformed column;                            *)
(*  (3) the fw family: the function is fully determined by the kind,       *)
(*      resolution and threshold embedded in the transformer's name; for   *)
(*      the sqrt kind on a rational grid the rounding is decided exactly   *)
(*      in the integers.                                                   *)
(* Machine selected by the constant Part.                                  *)
(***************************************************************************)
EXTENDS Naturals, Integers, Sequences, FiniteSets, FiniteSetsExt, TLC

CONSTANTS Part,            \* "presets" | "keep" | "fw"
          PresetNames,     \* set of preset names
          Preset,          \* [PresetNames -> set of transformer names]  (extracted from the vault at check time)
          MaxList,         \* preset lists of length 1..MaxList
          ResetInsideLoop, \* named deviation: the collection is re-initialised for every namespace of the list
          MaxRowsKeep,     \* keep rule: every symbol multiset on 1..MaxRowsKeep rows
          MaxRowsBig,      \* ... and the multisets within one row of the 80% / 75% thresholds up to this many rows
          SqrtBound,       \* fw: an integer >= sqrt(MaxX / Scale)
          Resolutions, Thresholds, MaxX, Scale   \* fw: x and gt are integers / Scale (Scale = 1: integers, 100: probabilities)

VARIABLES pc, list, todo, coll, counts, fw
vars == <<pc, list, todo, coll, counts, fw>>

\* ---------------------------------------------------------------- (1) presets
Lists == UNION {[1..n -> PresetNames] : n \in 1..MaxList}
UnionOf(l) == UNION {Preset[l[i]] : i \in DOMAIN l}

\* ---------------------------------------------------------------- (2) keep rule
\* counts = <<n_nan, n_a, n_b, n_c>>: occurrences of the output symbols NaN, a, b, c
NRowsOf(c) == c[1] + c[2] + c[3] + c[4]
DistinctOf(c) == Cardinality({i \in 1..4 : c[i] > 0})
MaxFreqOf(c) == Max({c[i] : i \in 1..4})
Keep(c) == /\ DistinctOf(c) > 1
           /\ 100 * MaxFreqOf(c) < 80 * NRowsOf(c)
           /\ 100 * c[1] < 75 * NRowsOf(c)
\* the statement can be read with NaN counting as a distinct value or not: ambiguous columns are marked
Ambiguous(c) == c[1] > 0 /\ Cardinality({i \in 2..4 : c[i] > 0}) = 1
AbsI(x) == IF x < 0 THEN -x ELSE x
BigN == (MaxRowsKeep + 1)..MaxRowsBig
Near80(n) == {m \in 1..n : AbsI(100 * m - 80 * n) <= 100}
Near75(n) == {m \in 1..n : AbsI(100 * m - 75 * n) <= 100}
\* most frequent ordinary value within one row of 80%, with 0 / 1 / half of the remaining rows NaN
NearMajority == UNION {{<<k, m, n - m - k, 0>> : k \in {0, 1, (n - m) \div 2} \cap 0..(n - m)} : <<n, m>> \in {<<n2, m2>> \in BigN \X (1..MaxRowsBig) : m2 \in Near80(n2)}}
\* NaN share within one row of 75%, the rest on one or two values
NearNaN == UNION {{<<m, a, n - m - a, 0>> : a \in {0, 1, (n - m) \div 2, n - m} \cap 0..(n - m)} : <<n, m>> \in {<<n2, m2>> \in BigN \X (1..MaxRowsBig) : m2 \in Near75(n2)}}
CountVectors == {c \in [1..4 -> 0..MaxRowsKeep] : NRowsOf(c) >= 1 /\ NRowsOf(c) <= MaxRowsKeep} \cup NearMajority \cup NearNaN

\* ---------------------------------------------------------------- (3) fw family, sqrt kind
\* fw = <<res, gt, x>> with the real threshold gt/Scale and input x/Scale
\* round(sqrt((x-gt)/Scale) * res) = the least r with 4 res^2 (x-gt) <= (2r+1)^2 * Scale (exact ties flagged by IsTie)
RoundedSqrt(res, d) == Min({r \in 0..(res * SqrtBound + 1) : 4 * res * res * d <= (2 * r + 1) * (2 * r + 1) * Scale})
IsTie(res, d) == \E r \in 0..(res * SqrtBound + 1) : 4 * res * res * d = (2 * r + 1) * (2 * r + 1) * Scale
\* at an exact tie sqrt(d/Scale)*res = r + 1/2 the rounding is IEEE round-half-to-even (numpy's and Python's round): the even
\* one of r, r+1.  Judged only where the tie is exact in binary floating point (Scale a power of two: the dyadic grid).
RoundedSqrtEven(res, d) == LET r == RoundedSqrt(res, d) IN IF IsTie(res, d) /\ r % 2 = 1 THEN r + 1 ELSE r
\* value as <<"id", x>> (returned unchanged), <<"int", n>>
FWSqrt(res, gt, x) == IF x < gt THEN <<"id", x>> ELSE IF x = gt THEN <<"int", 0>> ELSE <<"int", RoundedSqrt(res, x - gt)>>

Init == /\ pc = Part /\ list = <<>> /\ todo = <<>> /\ coll = {} /\ counts = <<0, 0, 0, 0>> /\ fw = <<0, 0, 0>>
ChooseList == /\ pc = "presets" /\ \E l \in Lists : list' = l /\ todo' = l
              /\ coll' = {} /\ pc' = "loop" /\ UNCHANGED <<counts, fw>>
\* one iteration of `for transformer_namespace in preset.split(',')`
AddNamespace == /\ pc = "loop" /\ todo # <<>>
                /\ coll' = (IF ResetInsideLoop THEN {} ELSE coll) \cup Preset[Head(todo)]
                /\ todo' = Tail(todo) /\ UNCHANGED <<pc, list, counts, fw>>
EndLoop == /\ pc = "loop" /\ todo = <<>> /\ pc' = "built" /\ UNCHANGED <<list, todo, coll, counts, fw>>
ChooseCounts == /\ pc = "keep" /\ \E c \in CountVectors : counts' = c
                /\ pc' = "decided" /\ UNCHANGED <<list, todo, coll, fw>>
ChooseFW == /\ pc = "fw" /\ \E res \in Resolutions : \E gt \in Thresholds : \E x \in 0..MaxX : fw' = <<res, gt, x>>
            /\ pc' = "applied" /\ UNCHANGED <<list, todo, coll, counts>>
Next == ChooseList \/ AddNamespace \/ EndLoop \/ ChooseCounts \/ ChooseFW
Spec == Init /\ [][Next]_vars

\* ---- C12
CollectionIsUnion == pc = "built" => coll = UnionOf(list)
UnionOrderFree == pc = "built" => \A l2 \in Lists : {l2[i] : i \in DOMAIN l2} = {list[i] : i \in DOMAIN list} => UnionOf(l2) = coll
KeepBoundaries == pc = "decided" =>
    /\ (DistinctOf(counts) = 1 => ~Keep(counts))
    /\ (5 * MaxFreqOf(counts) = 4 * NRowsOf(counts) => ~Keep(counts))      \* exactly 80% is dropped
    /\ (4 * counts[1] = 3 * NRowsOf(counts) => ~Keep(counts))                \* exactly 75% NaN is dropped
FWShape == pc = "applied" =>
    LET v == FWSqrt(fw[1], fw[2], fw[3]) IN
    /\ (fw[3] < fw[2] => v = <<"id", fw[3]>>)
    /\ (fw[3] = fw[2] => v = <<"int", 0>>)
    /\ (fw[3] > fw[2] => v[1] = "int" /\ v[2] >= 0)
EmitPresets == pc = "built" => PrintT(<<"PRESETS", list, Cardinality(coll)>>)
EmitKeep == pc = "decided" => PrintT(<<"KEEP", counts, Keep(counts), Ambiguous(counts)>>)
TieIsHalfEven == pc = "applied" /\ fw[3] > fw[2] =>
    LET r == RoundedSqrt(fw[1], fw[3] - fw[2]) e == RoundedSqrtEven(fw[1], fw[3] - fw[2]) IN
    /\ e % 2 = 0 \/ ~IsTie(fw[1], fw[3] - fw[2])
    /\ e \in {r, r + 1} /\ (~IsTie(fw[1], fw[3] - fw[2]) => e = r)
EmitFW == pc = "applied" => PrintT(<<"FW", fw, FWSqrt(fw[1], fw[2], fw[3]), fw[3] > fw[2] /\ IsTie(fw[1], fw[3] - fw[2]),
                                     IF fw[3] > fw[2] THEN RoundedSqrtEven(fw[1], fw[3] - fw[2]) ELSE 0>>)
=============================================================================
