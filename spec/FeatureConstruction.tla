------------------------ MODULE FeatureConstruction ------------------------
(***************************************************************************)
(* The feature-construction stage of core_ranking.compute_batch_ranking:   *)
(* one action per constructor, in the order of the code, each enabled by   *)
(* its flag:                                                               *)
(*   Transform    --transformers <preset> with C declared numeric: appends  *)
(*                C<transformer> columns (formulas and the keep rule are    *)
(*                specified in Transformers.tla; here: values "?", and the  *)
(*                implementation may keep any subset of them)               *)
(*   Expand       --explode_multivalue_features M                          *)
(*   Sub          --subfeature_mapping "A->B;A<->C;...": one step per pair  *)
(*                of the mapping list, one-sided (->) or two-sided (<->)    *)
(*   Interact     --interaction_order 2 (see Interactions.tla for the key) *)
(*   Noise        --include_noise_baseline_features True                   *)
(* A frame is a sequence of columns <<name, values>>; names and cell       *)
(* values are structured terms the harness renders as strings:             *)
(*   <<"lab">> / <<"M">> / <<"A">> / <<"B">>  the original columns          *)
(*   <<"MULTIEX", col, token>>, <<"SUB1", a, v>>, <<"SUB2", a, b, va, vb>>,*)
(*   <<"AND", n1, n2>>, <<"CONTROL", k>>, <<"TR", col, transformer>>       *)
(* Cell values of the multi-value column are strings whose token sets are  *)
(* given by Tok (delimiters "," and "-").                                  *)
(***************************************************************************)
EXTENDS Naturals, Sequences, FiniteSets, FiniteSetsExt, SequencesExt, TLC

CONSTANTS NRows, MVals, AVals, BVals, CVals,   \* value alphabets of columns M, A, B, C
          FocusSets,                       \* --feature_set_focus: sets of column ids kept (with the label); {"M","A","B","C"} = no focus
          SubMaps,                         \* set of --subfeature_mapping lists: sequences of <<"one"|"two", seed column, selector column>>
          FlagSets,                        \* set of flag subsets explored
          MissingTokens,                   \* tokens that are missing-value symbols (no indicator column)
          NControls,                       \* number of random control columns (names fixed by the code)
          TrNames                          \* sequence of transformer names of the preset

VARIABLES pc, flags, submap, focus, raw, frame, frame0
vars == <<pc, flags, submap, focus, raw, frame, frame0>>

Rows == 1..NRows
\* token sets of the multi-value strings ("," and "-" both delimit)
Tok == [v \in {"", "a", "b", "a,b", "b-a", "a,a", "c-", "a.b", "axb", "c+", "c", "(a", "a|b", "a*", "aa", "c+,c", "a.b-axb"} |->
          CASE v = "" -> {""} [] v = "a" -> {"a"} [] v = "b" -> {"b"} [] v = "a,b" -> {"a", "b"}
            [] v = "b-a" -> {"a", "b"} [] v = "a,a" -> {"a"} [] v = "c-" -> {"c", ""}
            [] v = "c+,c" -> {"c+", "c"} [] v = "a.b-axb" -> {"a.b", "axb"}
            [] OTHER -> {v}]                       \* a value without delimiter is its own single token
\* all tokens in sorted (code point) order
TokenOrder == <<"", "(a", "a", "a*", "a.b", "aa", "axb", "a|b", "b", "c", "c+">>
AllTokens == {TokenOrder[i] : i \in DOMAIN TokenOrder}
LabelCol == [r \in Rows |-> IF r % 2 = 0 THEN "0" ELSE "1"]

ColNames(f) == [k \in DOMAIN f |-> f[k][1]]
Col(f, name) == (CHOOSE k \in DOMAIN f : f[k][1] = name)
Vals(f, name) == f[Col(f, <<name>>)][2]
\* values in order of first appearance (pandas .unique())
Uniq(col) == LET RECURSIVE U(_, _)
                 U(i, acc) == IF i > Len(col) THEN acc
                              ELSE IF \E j \in DOMAIN acc : acc[j] = col[i] THEN U(i + 1, acc) ELSE U(i + 1, Append(acc, col[i]))
             IN U(1, <<>>)

Init == /\ pc = "m" /\ flags \in FlagSets /\ frame = <<>> /\ frame0 = <<>> /\ raw = <<>>
        /\ submap \in (IF "sub" \in flags THEN SubMaps ELSE {<<>>})
        /\ focus \in FocusSets
ChooseM == /\ pc = "m" /\ \E c \in [Rows -> MVals] : frame' = <<<<<<"lab">>, LabelCol>>, <<<<"M">>, c>>>>
           /\ pc' = "a" /\ UNCHANGED <<flags, submap, focus, raw, frame0>>
ChooseA == /\ pc = "a" /\ \E c \in [Rows -> AVals] : frame' = Append(frame, <<<<"A">>, c>>)
           /\ pc' = "b" /\ UNCHANGED <<flags, submap, focus, raw, frame0>>
ChooseB == /\ pc = "b" /\ \E c \in [Rows -> BVals] : frame' = Append(frame, <<<<"B">>, c>>)
           /\ pc' = "c" /\ UNCHANGED <<flags, submap, focus, raw, frame0>>
\* the focus restriction keeps the label and the focused columns, in the data's column order; it is applied
\* before any constructor, so the focused frame is the batch's "original" frame
Focused(f) == SelectSeq(f, LAMBDA col : col[1] = <<"lab">> \/ col[1][1] \in focus)
ChooseC == /\ pc = "c" /\ \E c \in [Rows -> CVals] : raw' = Append(frame, <<<<"C">>, c>>)
           /\ frame' = Focused(raw') /\ frame0' = frame' /\ pc' = "transform" /\ UNCHANGED <<flags, submap, focus>>

\* ---- enrich_with_transformations: runs on the focused frame, before every other constructor
TrCols == IF "C" \in focus THEN [k \in DOMAIN TrNames |-> <<<<"TR", "C", TrNames[k]>>, [r \in Rows |-> "?"]>>] ELSE <<>>
Transform == /\ pc = "transform"
             /\ frame' = IF "transform" \in flags THEN frame \o TrCols ELSE frame
             /\ pc' = "expand" /\ UNCHANGED <<flags, submap, focus, raw, frame0>>

\* ---- compute_expanded_multivalue_features
TokensOfCol(col) == UNION {Tok[col[r]] : r \in Rows} \ MissingTokens
ExpandCols == LET toks == SelectSeq(TokenOrder, LAMBDA t : t \in TokensOfCol(Vals(frame, "M")))
              IN [k \in DOMAIN toks |-> <<<<"MULTIEX", "M", toks[k]>>,
                                         [r \in Rows |-> IF toks[k] \in Tok[Vals(frame, "M")[r]] THEN "1" ELSE ""]>>]
Expand == /\ pc = "expand"
          /\ frame' = IF "multi" \in flags THEN frame \o ExpandCols ELSE frame
          /\ pc' = "sub" /\ UNCHANGED <<flags, submap, focus, raw, frame0>>

\* ---- compute_subfeatures: the pairs of the mapping list in order
SubOneCols(a, b) == LET ub == Uniq(Vals(frame, b))
                    IN [k \in DOMAIN ub |-> <<<<"SUB1", a, ub[k]>>,
                                              [r \in Rows |-> IF Vals(frame, b)[r] = ub[k] THEN <<Vals(frame, a)[r], "AND", Vals(frame, b)[r]>> ELSE <<>>]>>]
SubTwoCols(a, b) == LET ua == Uniq(Vals(frame, a))  ub == Uniq(Vals(frame, b))
                        idx == [k \in 1..(Len(ua) * Len(ub)) |-> <<((k - 1) % Len(ua)) + 1, ((k - 1) \div Len(ua)) + 1>>]   \* selector outer, seed inner
                    IN [k \in DOMAIN idx |-> <<<<"SUB2", a, b, ua[idx[k][1]], ub[idx[k][2]]>>,
                                               [r \in Rows |-> IF Vals(frame, a)[r] = ua[idx[k][1]] /\ Vals(frame, b)[r] = ub[idx[k][2]] THEN "1" ELSE "0"]>>]
SubColsOf(e) == IF e[1] = "one" THEN SubOneCols(e[2], e[3]) ELSE SubTwoCols(e[2], e[3])
SubCols == FoldLeft(LAMBDA acc, e : acc \o SubColsOf(e), <<>>, submap)
Sub == /\ pc = "sub"
       /\ frame' = frame \o SubCols
       /\ pc' = "interact" /\ UNCHANGED <<flags, submap, focus, raw, frame0>>

\* ---- compute_combined_features, order 2, cap above the candidate count
NonLabel == SelectSeq([k \in DOMAIN frame |-> k], LAMBDA k : frame[k][1] # <<"lab">>)
PairIdx == {<<i, j>> \in (DOMAIN NonLabel) \X (DOMAIN NonLabel) : i < j}
PairSeq == SetToSortSeq(PairIdx, LAMBDA p, q : p[1] < q[1] \/ (p[1] = q[1] /\ p[2] < q[2]))
InteractCols == [k \in DOMAIN PairSeq |->
                   LET c1 == frame[NonLabel[PairSeq[k][1]]]  c2 == frame[NonLabel[PairSeq[k][2]]]
                   IN <<<<"AND", c1[1], c2[1]>>, [r \in Rows |-> <<c1[2][r], c2[2][r]>>]>>]
Interact == /\ pc = "interact"
            /\ frame' = IF "interact" \in flags THEN frame \o InteractCols ELSE frame
            /\ pc' = "noise" /\ UNCHANGED <<flags, submap, focus, raw, frame0>>

\* ---- include_noisy_features: random controls (values unconstrained: "?"), the target control copies the label
NoiseCols == [k \in 1..NControls |-> <<<<"CONTROL", ToString(k)>>, [r \in Rows |-> "?"]>>]
             \o <<<<<<"CONTROL", "target">>, Vals(frame, "lab")>>, <<<<"CONTROL", "volume">>, [r \in Rows |-> "?"]>>>>
Noise == /\ pc = "noise"
         /\ frame' = IF "noise" \in flags THEN frame \o NoiseCols ELSE frame
         /\ pc' = "done" /\ UNCHANGED <<flags, submap, focus, raw, frame0>>

Next == ChooseM \/ ChooseA \/ ChooseB \/ ChooseC \/ Transform \/ Expand \/ Sub \/ Interact \/ Noise
Spec == Init /\ [][Next]_vars

Built == pc \in {"expand", "sub", "interact", "noise", "done"}
\* ---- C11
Additive == Built => /\ Len(frame) >= Len(frame0)
                     /\ SubSeq(frame, 1, Len(frame0)) = frame0                    \* originals, their values and the row order
OneValuePerRow == Built => \A k \in DOMAIN frame : DOMAIN frame[k][2] = Rows
DistinctNames == Built => \A j, k \in DOMAIN frame : j # k => frame[j][1] # frame[k][1]
MultiValueRule == (pc \in {"sub", "interact", "noise", "done"} /\ "multi" \in flags) =>
    \A t \in AllTokens :
        IF t \in TokensOfCol(Vals(frame0, "M"))
        THEN \E k \in DOMAIN frame : /\ frame[k][1] = <<"MULTIEX", "M", t>>
                                     /\ \A r \in Rows : (frame[k][2][r] = "1") = (t \in Tok[Vals(frame0, "M")[r]])
                                     /\ \A r \in Rows : frame[k][2][r] \in {"1", ""}
        ELSE ~\E k \in DOMAIN frame : frame[k][1] = <<"MULTIEX", "M", t>>
OneSidedRule == (pc \in {"interact", "noise", "done"}) =>
    \A i \in DOMAIN submap : submap[i][1] = "one" =>
        LET a == submap[i][2]  b == submap[i][3] IN
        \A v \in {Vals(frame0, b)[r] : r \in Rows} :
            \E k \in DOMAIN frame : /\ frame[k][1] = <<"SUB1", a, v>>
                                    /\ \A r \in Rows : frame[k][2][r] =
                                          (IF Vals(frame0, b)[r] = v THEN <<Vals(frame0, a)[r], "AND", v>> ELSE <<>>)
TwoSidedRule == (pc \in {"interact", "noise", "done"}) =>
    \A i \in DOMAIN submap : submap[i][1] = "two" =>
        LET a == submap[i][2]  b == submap[i][3] IN
        \A va \in {Vals(frame0, a)[r] : r \in Rows} : \A vb \in {Vals(frame0, b)[r] : r \in Rows} :
            \E k \in DOMAIN frame : /\ frame[k][1] = <<"SUB2", a, b, va, vb>>
                                    /\ \A r \in Rows : frame[k][2][r] =
                                          (IF Vals(frame0, a)[r] = va /\ Vals(frame0, b)[r] = vb THEN "1" ELSE "0")
TargetControlIsLabel == (pc = "done" /\ "noise" \in flags) =>
    \E k \in DOMAIN frame : frame[k][1] = <<"CONTROL", "target">> /\ frame[k][2] = Vals(frame0, "lab")
FocusKeepsOrder == Built => \A k \in DOMAIN frame0 : frame0[k][1] = <<"lab">> \/ frame0[k][1][1] \in focus
Emit == pc = "done" => PrintT(<<"CASE", flags, submap, frame0, frame, focus, raw>>)
=============================================================================
