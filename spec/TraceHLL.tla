------------------------------ MODULE TraceHLL ------------------------------
(* Full-scale traces of the real HyperLogLogWCache (p=19, warm-up 2^18).                 *)
(* ndjson: {"e":"begin"} | {"e":"add","new":k_new,"dup":k_dup,"size":len() afterwards}    *)
(* one event stands for k_new adds of values never seen before and k_dup re-adds of      *)
(* values already seen (in the order the harness chose); near the warm-up boundary the   *)
(* harness logs every single add.  TLC tracks the exact number of distinct values.       *)
EXTENDS Naturals, Integers, Sequences, TLC, Json, IOUtils
CONSTANTS Cap, Limit      \* 2^18, 2^21
VARIABLES l, n, size
Trace == ndJsonDeserialize(IOEnv.TRACE_FILE)
Abs(x) == IF x < 0 THEN -x ELSE x
Init == l = 1 /\ n = 0 /\ size = 0
Begin == l <= Len(Trace) /\ Trace[l].e = "begin" /\ n' = 0 /\ size' = 0 /\ l' = l + 1
Add == /\ l <= Len(Trace) /\ Trace[l].e = "add"
       /\ LET ev == Trace[l]  m == n + ev.new IN
          /\ (m <= Cap => ev.size = m)                                   \* ExactWhileWarm
          /\ (m > Cap /\ m <= Limit => 50 * Abs(ev.size - m) <= m)       \* Within2Percent
          /\ (ev.new = 0 => ev.size = size)                              \* DuplicateBlind
          /\ n' = m /\ size' = ev.size
       /\ l' = l + 1
Next == Begin \/ Add
Spec == Init /\ [][Next]_<<l, n, size>>
Accepted == TLCGet("stats").diameter - 1 = Len(Trace)
=============================================================================
