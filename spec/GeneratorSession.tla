-------------------------- MODULE GeneratorSession --------------------------
(***************************************************************************)
(* One CategoricalClassification instance used for a whole session (C19:   *)
(* "the same seed and arguments reproduce the same data set").  The        *)
(* generator draws from the process-global numpy RNG; generate_data        *)
(* re-seeds it on entry, so its result is a function of (seed, arguments)  *)
(* only - whatever happened before on this instance, on another instance,  *)
(* or to the global RNG.  The RNG is abstract: <<seed it was last seeded   *)
(* with, number of draws consumed since>>.                                 *)
(*   Construct(s)       CategoricalClassification(seed=s): seeds the RNG   *)
(*   Generate(a, s)     generate_data(args a, seed=s)                     *)
(*   Derive             generate_correlated / generate_labels / noise:     *)
(*                      consume draws without re-seeding                   *)
(*   Foreign            any other use of numpy's global RNG                *)
(* The history records, per Generate call, the RNG state its draws started *)
(* from; two calls with equal (a, s) must have started from equal states.  *)
(***************************************************************************)
EXTENDS Naturals, Sequences, FiniteSets, TLC

CONSTANTS Seeds, ArgSets, MaxSteps,
          ReseedOnlyOnChange   \* named deviation: re-seed only when the seed differs from the instance's last seed

VARIABLES rng, lastseed, hist, steps
vars == <<rng, lastseed, hist, steps>>

Init == /\ \E s \in Seeds : rng = <<s, 0>> /\ lastseed = s      \* Construct
        /\ hist = <<>> /\ steps = <<<<"construct", 0, lastseed>>>>
Generate(a, s) ==
    /\ Len(steps) < MaxSteps
    /\ LET start == IF ReseedOnlyOnChange /\ s = lastseed THEN rng ELSE <<s, 0>>
       IN /\ hist' = Append(hist, [a |-> a, s |-> s, from |-> start])
          /\ rng' = <<start[1], start[2] + 1>>                    \* the call consumes draws
    /\ lastseed' = s
    /\ steps' = Append(steps, <<"generate", a, s>>)
Derive == /\ Len(steps) < MaxSteps /\ hist # <<>>
          /\ rng' = <<rng[1], rng[2] + 1>>
          /\ steps' = Append(steps, <<"derive", 0, 0>>)
          /\ UNCHANGED <<lastseed, hist>>
Foreign == /\ Len(steps) < MaxSteps
           /\ rng' = <<rng[1], rng[2] + 1>>
           /\ steps' = Append(steps, <<"foreign", 0, 0>>)
           /\ UNCHANGED <<lastseed, hist>>
Next == (\E a \in ArgSets : \E s \in Seeds : Generate(a, s)) \/ Derive \/ Foreign
Spec == Init /\ [][Next]_vars

\* ---- C19 (seed clause)
SameSeedSameData == \A i, j \in DOMAIN hist : (hist[i].a = hist[j].a /\ hist[i].s = hist[j].s) => hist[i].from = hist[j].from
FreshStart == \A i \in DOMAIN hist : hist[i].from = <<hist[i].s, 0>>
Emit == (Len(steps) = MaxSteps /\ Cardinality({i \in DOMAIN steps : steps[i][1] = "generate"}) >= 2) => PrintT(<<"SESSION", steps>>)
=============================================================================
