---------------------------- MODULE MIRankTrace ----------------------------
(* Ranking corollary of C03 on recorded scores (scaled by 2^20, rounded):               *)
(* each ndjson line {"sig": s, "noise": [..], "usig": u, "unoise": [..]} is one seed of  *)
(* the planted-signal family.  Corrected: the signal strictly outranks every noise       *)
(* feature.  Uncorrected: recorded, and counted when it does NOT hold (non-vacuity of    *)
(* "which the uncorrected score does not guarantee").                                    *)
EXTENDS Naturals, Integers, Sequences, FiniteSets, FiniteSetsExt, TLC, Json, IOUtils

VARIABLES l, unc_fail
Trace == ndJsonDeserialize(IOEnv.TRACE_FILE)
SeqMax(s) == Max({s[i] : i \in DOMAIN s})

Init == l = 1 /\ unc_fail = 0
Next == /\ l <= Len(Trace)
        /\ l' = l + 1
        /\ unc_fail' = unc_fail + (IF Trace[l].usig > SeqMax(Trace[l].unoise) THEN 0 ELSE 1)
Spec == Init /\ [][Next]_<<l, unc_fail>>

SignalOutranksNoise == l <= Len(Trace) => Trace[l].sig > SeqMax(Trace[l].noise)
Accepted == /\ TLCGet("stats").diameter - 1 = Len(Trace)
NonVacuous == l = Len(Trace) + 1 => unc_fail > 0
=============================================================================
