------------------------------ MODULE Parsers ------------------------------
(***************************************************************************)
(* core_utils.generic_line_parser at character level.  A string is a       *)
(* sequence of character codes; the alphabet is a constant so that the     *)
(* configuration decides which characters are explored:                    *)
(*   X, Y      ordinary letters          SP   space                        *)
(*   COMMA     the CSV delimiter         QT   the CSV quote character      *)
(*   TAB       the TSV delimiter         BAR  the VW namespace separator   *)
(*   NL        line feed (only as line terminator)                         *)
(* Three formats:                                                          *)
(*   csv-raw / ob-csv : RFC-4180 rendering (what csv.writer emits) and a   *)
(*                      4-state reader (start / unquoted / quoted / quote  *)
(*                      seen inside quotes)                                *)
(*   ob-raw-dump      : TAB separated; only the line terminator is removed *)
(*   ob-vw            : label |ns tok tok |ns tok ...                      *)
(* plus the namespace-map lines (id,feature[,type]).                       *)
(***************************************************************************)
EXTENDS Naturals, Sequences, FiniteSets, FiniteSetsExt, SequencesExt, TLC

CONSTANTS X, Y, SP, COMMA, QT, TAB, BAR, NL, DASH, ZED,     \* ZED: an exotic character (rendered by the harness as unicode spaces, tab, ...) used inside VW tokens
          Format,        \* "csv" | "tsv" | "vw"
          CellChars,     \* characters allowed inside cells / tokens for this run
          MaxCellLen, MaxCells,
          Tokens,        \* VW: the token strings (cfg: <- definition)
          NSCount,       \* VW: number of namespaces in the header
          StripWholeLine \* named deviation (tsv): strip() the whole line instead of its terminator

VARIABLES pc, cells, vw, wide, nsorder
vars == <<pc, cells, vw, wide, nsorder>>

\* ---------------------------------------------------------------- generic string operations
Join(parts, sep) == IF parts = <<>> THEN <<>>
                    ELSE FoldLeft(LAMBDA acc, p : acc \o sep \o p, parts[1], Tail(parts))
RECURSIVE SplitAt(_, _, _, _)
SplitAt(s, ch, cur, out) == IF s = <<>> THEN Append(out, cur)
                            ELSE IF Head(s) = ch THEN SplitAt(Tail(s), ch, <<>>, Append(out, cur))
                            ELSE SplitAt(Tail(s), ch, Append(cur, Head(s)), out)
Split(s, ch) == SplitAt(s, ch, <<>>, <<>>)                      \* str.split(ch)
White == {SP, TAB, NL}
RECURSIVE LStrip(_, _)
LStrip(s, W) == IF s # <<>> /\ Head(s) \in W THEN LStrip(Tail(s), W) ELSE s
RStrip(s, W) == Reverse(LStrip(Reverse(s), W))
Strip(s) == RStrip(LStrip(s, White), White)                      \* str.strip()
HasChar(s, ch) == \E i \in DOMAIN s : s[i] = ch

\* ---------------------------------------------------------------- CSV
NeedsQuote(cell) == HasChar(cell, COMMA) \/ HasChar(cell, QT) \/ HasChar(cell, NL)
Doubled(cell) == FoldLeft(LAMBDA acc, ch : IF ch = QT THEN acc \o <<QT, QT>> ELSE Append(acc, ch), <<>>, cell)
RenderCell(cell) == IF NeedsQuote(cell) THEN <<QT>> \o Doubled(cell) \o <<QT>> ELSE cell
RenderCSV(row) == (IF Len(row) = 1 /\ row[1] = <<>> THEN <<QT, QT>>           \* a lone empty cell is written as ""
                   ELSE Join([i \in DOMAIN row |-> RenderCell(row[i])], <<COMMA>>)) \o <<NL>>

\* reader: state, current cell, output
RECURSIVE CsvRead(_, _, _, _)
CsvRead(s, st, cur, out) ==
    IF s = <<>> THEN (IF st = "start" /\ out = <<>> THEN <<>> ELSE Append(out, cur))
    ELSE LET ch == Head(s)  rest == Tail(s) IN
         CASE st = "start" ->
                  IF ch = QT THEN CsvRead(rest, "inq", cur, out)
                  ELSE IF ch = COMMA THEN CsvRead(rest, "start", <<>>, Append(out, cur))
                  ELSE IF ch = NL THEN CsvRead(rest, "eol", cur, out)
                  ELSE CsvRead(rest, "unq", Append(cur, ch), out)
           [] st = "unq" ->
                  IF ch = COMMA THEN CsvRead(rest, "start", <<>>, Append(out, cur))
                  ELSE IF ch = NL THEN CsvRead(rest, "eol", cur, out)
                  ELSE CsvRead(rest, "unq", Append(cur, ch), out)
           [] st = "inq" ->
                  IF ch = QT THEN CsvRead(rest, "qq", cur, out)
                  ELSE CsvRead(rest, "inq", Append(cur, ch), out)
           [] st = "qq" ->
                  IF ch = QT THEN CsvRead(rest, "inq", Append(cur, QT), out)
                  ELSE IF ch = COMMA THEN CsvRead(rest, "start", <<>>, Append(out, cur))
                  ELSE IF ch = NL THEN CsvRead(rest, "eol", cur, out)
                  ELSE CsvRead(rest, "unq", Append(cur, ch), out)
           [] OTHER -> CsvRead(rest, st, cur, out)                \* after the terminator
ParseCSV(line) == LET r == CsvRead(line, "start", <<>>, <<>>) IN r

\* ---------------------------------------------------------------- TSV
RenderTSV(row) == Join(row, <<TAB>>) \o <<NL>>
ParseTSV(line) == IF StripWholeLine THEN Split(Strip(line), TAB)
                  ELSE Split(RStrip(line, {NL}), TAB)

\* ---------------------------------------------------------------- VW
\* vw = [label |-> token, ns |-> [1..NSCount -> [p |-> present?, t |-> sequence of tokens]]]
NsId(k) == CASE k = 1 -> <<X, X>> [] k = 2 -> <<X, Y>> [] OTHER -> <<Y, X>>     \* two-character namespace ids
VWTokens == {<<X, Y, X>>, <<X, Y>>, <<Y, Y, X, DASH, X>>, <<X>>, <<X, Y, X, ZED, X>>}     \* prefix+body, prefix only, with a dash, shorter than the prefix
VWLabels == {<<X>>, <<DASH, X>>}                                      \* "1", "-1"
Gap == IF wide THEN <<SP, SP>> ELSE <<SP>>
RenderNs(k, toks) == <<BAR>> \o NsId(k) \o FoldLeft(LAMBDA acc, t : acc \o Gap \o t, <<>>, toks) \o (IF wide THEN <<SP>> ELSE <<>>)
RenderVW(v) == v.label \o <<SP>>
               \o FoldLeft(LAMBDA acc, k : IF ~v.ns[k].p THEN acc ELSE acc \o RenderNs(k, v.ns[k].t), <<>>, nsorder)     \* namespaces may appear in any order on the line
               \o <<NL>>
\* parse_ob_line_vw: Missing stands for None (0 is not a character code)
Missing == <<0>>
Drop2(s) == IF Len(s) <= 2 THEN <<>> ELSE SubSeq(s, 3, Len(s))
ParseVW(line) ==
    LET parts == Split(Strip(line), BAR)
        label == Split(parts[1], SP)[1]
        nsparts == [i \in 1..(Len(parts) - 1) |-> Split(Strip(parts[i + 1]), SP)]
        valueOf(k) == LET hits == {i \in DOMAIN nsparts : nsparts[i][1] = NsId(k)}
                      IN IF hits = {} THEN Missing
                         ELSE LET p == nsparts[Max(hits)]                      \* the last occurrence wins
                                  toks == SelectSeq(Tail(p), LAMBDA t : t # <<>>)
                              IN Drop2(Join(toks, <<DASH>>))
    IN <<label>> \o [k \in 1..NSCount |-> valueOf(k)]
\* what the statement asks for: joined by "-" without the two-character prefix;
\* for several tokens the statement can be read per token or on the joined string: both are acceptable
ExpectedVW(v) == [k \in 1..NSCount |->
                    IF ~v.ns[k].p THEN {Missing}
                    ELSE {Drop2(Join(v.ns[k].t, <<DASH>>)), Join([i \in DOMAIN v.ns[k].t |-> Drop2(v.ns[k].t[i])], <<DASH>>)}]

\* ---------------------------------------------------------------- the enumeration machine
CellSet == UNION {[1..n -> CellChars] : n \in 0..MaxCellLen}
Init == /\ pc = "build" /\ cells = <<>> /\ vw = <<>> /\ wide \in (IF Format = "vw" THEN BOOLEAN ELSE {FALSE})
        /\ nsorder \in (IF Format = "vw" THEN {f \in [1..NSCount -> 1..NSCount] : \A i, j \in 1..NSCount : i # j => f[i] # f[j]} ELSE {<<>>})
AddCell == /\ pc = "build" /\ Format \in {"csv", "tsv"} /\ Len(cells) < MaxCells
           /\ \E c \in CellSet : cells' = Append(cells, c)
           /\ UNCHANGED <<pc, vw, wide, nsorder>>
Finish == /\ pc = "build" /\ Format \in {"csv", "tsv"} /\ cells # <<>> /\ pc' = "row"
          /\ UNCHANGED <<cells, vw, wide, nsorder>>
NsChoices == {[p |-> FALSE, t |-> <<>>]} \cup {[p |-> TRUE, t |-> ts] : ts \in UNION {[1..n -> Tokens] : n \in 0..2}}
ChooseVW == /\ pc = "build" /\ Format = "vw"
            /\ \E lab \in VWLabels : \E ns \in [1..NSCount -> NsChoices] : vw' = [label |-> lab, ns |-> ns]
            /\ pc' = "row" /\ UNCHANGED <<cells, wide, nsorder>>
Ready == pc = "row"
\* ---------------------------------------------------------------- namespace map (vw_namespace_map.csv)
\* entry kinds: what one line of the map looks like; the k-th line declares id k / feature k
NsKinds == {"two", "two_underscore", "three_f32", "three_other", "three_empty", "three_f32_underscore", "three_empty_underscore", "one", "four"}
Declares(kind) == kind \in {"two", "three_f32", "three_other", "three_empty", "three_f32_underscore", "three_empty_underscore"}      \* a well-formed declaration (ids with an underscore need the type field, possibly empty)
ExpectedMap(es) == {k \in DOMAIN es : Declares(es[k])}                              \* ids mapped to their feature
ExpectedFloats(es) == {k \in DOMAIN es : es[k] \in {"three_f32", "three_f32_underscore"}}
ChooseMap == /\ pc = "build" /\ Format = "nsmap"
             /\ \E n \in 1..MaxCells : \E es \in [1..n -> NsKinds] : cells' = es
             /\ pc' = "row" /\ UNCHANGED <<vw, wide, nsorder>>
EmitMap == (Ready /\ Format = "nsmap") => PrintT(<<"NSMAP", cells, ExpectedMap(cells), ExpectedFloats(cells)>>)

Next == AddCell \/ Finish \/ ChooseVW \/ ChooseMap
Spec == Init /\ [][Next]_vars

\* ---- C16
RoundTripCSV == (Ready /\ Format = "csv") => ParseCSV(RenderCSV(cells)) = cells
RoundTripTSV == (Ready /\ Format = "tsv") => ParseTSV(RenderTSV(cells)) = cells
ArityExact == (Ready /\ Format = "csv" => Len(ParseCSV(RenderCSV(cells))) = Len(cells))
              /\ (Ready /\ Format = "tsv" => Len(ParseTSV(RenderTSV(cells))) = Len(cells))
VWFieldsInColumns == (Ready /\ Format = "vw") =>
    LET r == ParseVW(RenderVW(vw)) IN
    /\ Len(r) = NSCount + 1
    /\ r[1] = vw.label
    /\ \A k \in 1..NSCount : r[k + 1] \in ExpectedVW(vw)[k]
Line == IF Format = "csv" THEN RenderCSV(cells) ELSE IF Format = "tsv" THEN RenderTSV(cells) ELSE RenderVW(vw)
Emit == (Ready /\ Format # "nsmap") => PrintT(<<"CASE", Format, Line, IF Format = "vw" THEN <<vw.label, ExpectedVW(vw)>> ELSE cells>>)
=============================================================================
