---------------------------- MODULE DataQuality ----------------------------
(***************************************************************************)
(* The process-global data-quality state that compute_batch_ranking        *)
(* updates once per mini-batch (core_ranking.compute_coverage,             *)
(* compute_cardinalities, compute_value_counts):                           *)
(*   sk[c]    distinct non-empty values of column c (the cardinality       *)
(*            sketch in its exact phase, see Sketches.tla)                 *)
(*   cnt[c]   bounded value counter (PrimitiveConstrainedCounter)          *)
(*   rare     counter over <<column, value>> pairs not yet retired         *)
(*   retired  pairs whose count exceeded the rare-value threshold          *)
(*   cov[c]   per-batch <<non-missing cells, rows>>                        *)
(* The environment appends rows to a buffer; ConsumeBatch takes the whole  *)
(* buffer at an arbitrary moment, so TLC explores every composition of the *)
(* row count.  The ghost `seen` (all consumed rows, in order) turns        *)
(* "independent of the batch split" into one-run invariants: every         *)
(* statistic must equal its exact recomputation over `seen`.               *)
(***************************************************************************)
EXTENDS Naturals, Integers, Sequences, FiniteSets, FiniteSetsExt, SequencesExt, TLC

CONSTANTS Cols,        \* column ids
          Values,      \* cell values (integers)
          EmptyVal,    \* the empty string: never counted as a distinct value
          MissingSyms, \* values that count as missing for coverage (--missing_value_symbols)
          MaxRows, Thr, Bound,
          RareTask,    \* TRUE: task identify_rare_values (compute_value_counts is called)
          RetireByValue \* named deviation: retired pairs looked up by the value alone

VARIABLES buf, seen, sk, cnt, rare, retired, cov, hist
vars == <<buf, seen, sk, cnt, rare, retired, cov, hist>>

Row == [Cols -> Values]
Pairs == Cols \X Values

\* ---- exact recomputation over a sequence of rows
Occ(rs, c, v) == Cardinality({i \in DOMAIN rs : rs[i][c] = v})
Distinct(rs, c) == {rs[i][c] : i \in DOMAIN rs}
\* the values of column c in order of first appearance
FirstSeen(rs, c) == LET RECURSIVE F(_, _)
                        F(i, acc) == IF i > Len(rs) THEN acc
                                     ELSE IF \E j \in DOMAIN acc : acc[j] = rs[i][c] THEN F(i + 1, acc)
                                     ELSE F(i + 1, Append(acc, rs[i][c]))
                    IN F(1, <<>>)

\* ---- one bounded-counter add
CounterAdd(f, v) == IF Cardinality(DOMAIN f) < Bound
                    THEN [k \in (DOMAIN f) \cup {v} |-> IF k = v THEN (IF v \in DOMAIN f THEN f[v] + 1 ELSE 1) ELSE f[k]]
                    ELSE f
CounterAddAll(f, rs, c) == FoldLeft(LAMBDA acc, r : CounterAdd(acc, r[c]), f, rs)

Init == /\ buf = <<>> /\ seen = <<>> /\ sk = [c \in Cols |-> {}] /\ cnt = [c \in Cols |-> <<>>]
        /\ rare = <<>> /\ retired = {} /\ cov = [c \in Cols |-> <<>>] /\ hist = <<>>

AddRow == /\ Len(seen) + Len(buf) < MaxRows
          /\ \E r \in Row : buf' = Append(buf, r)
          /\ UNCHANGED <<seen, sk, cnt, rare, retired, cov, hist>>

IsRetired(p) == IF RetireByValue THEN FALSE ELSE p \in retired   \* a bare value is never equal to a stored pair
ConsumeBatch ==
    /\ buf # <<>>
    /\ cov' = [c \in Cols |-> Append(cov[c], <<Cardinality({i \in DOMAIN buf : buf[i][c] \notin MissingSyms}), Len(buf)>>)]
    /\ sk' = [c \in Cols |-> sk[c] \cup (Distinct(buf, c) \ {EmptyVal})]
    /\ cnt' = [c \in Cols |-> CounterAddAll(cnt[c], buf, c)]
    /\ IF RareTask
       THEN LET bumped == [p \in (DOMAIN rare) \cup {q \in Pairs : Occ(buf, q[1], q[2]) > 0 /\ ~IsRetired(q)} |->
                              (IF p \in DOMAIN rare THEN rare[p] ELSE 0) + (IF IsRetired(p) THEN 0 ELSE Occ(buf, p[1], p[2]))]
                over == {p \in DOMAIN bumped : bumped[p] > Thr}
            IN /\ retired' = retired \cup over
               /\ rare' = [p \in (DOMAIN bumped) \ over |-> bumped[p]]
       ELSE UNCHANGED <<rare, retired>>
    /\ seen' = seen \o buf
    /\ hist' = Append(hist, buf)
    /\ buf' = <<>>

Next == AddRow \/ ConsumeBatch
Spec == Init /\ [][Next]_vars

\* ---- C13: every statistic equals its exact recomputation over the consumed rows
CardinalityExact == \A c \in Cols : sk[c] = Distinct(seen, c) \ {EmptyVal}
HistogramExact == \A c \in Cols : Cardinality(Distinct(seen, c)) < Bound =>
                     /\ DOMAIN cnt[c] = Distinct(seen, c)
                     /\ \A v \in DOMAIN cnt[c] : cnt[c][v] = Occ(seen, c, v)
HistogramNeverOver == \A c \in Cols : /\ Cardinality(DOMAIN cnt[c]) <= Bound
                                      /\ \A v \in DOMAIN cnt[c] : cnt[c][v] <= Occ(seen, c, v)
RareReportExact == RareTask =>
    /\ DOMAIN rare = {p \in Pairs : Occ(seen, p[1], p[2]) > 0 /\ Occ(seen, p[1], p[2]) <= Thr}
    /\ \A p \in DOMAIN rare : rare[p] = Occ(seen, p[1], p[2])
CoverageIsPerBatch == \A c \in Cols : /\ Len(cov[c]) = Len(hist)
                                      /\ \A k \in DOMAIN hist : cov[c][k] = <<Cardinality({i \in DOMAIN hist[k] : hist[k][i][c] \notin MissingSyms}), Len(hist[k])>>

\* the "(cardinality; coverage)" annotation of a feature name reports the MEAN of the per-batch coverage
\* percentages (not the pooled percentage, not the median): as a rational <<numerator, denominator>> of the share
Prod(seq) == FoldLeft(LAMBDA a, b : a * b, 1, seq)
MeanCoverage(c) == LET K == Len(cov[c])
                       lens == [k \in 1..K |-> cov[c][k][2]]
                   IN <<FoldLeft(LAMBDA acc, k : acc + cov[c][k][1] * Prod([j \in 1..K |-> IF j = k THEN 1 ELSE lens[j]]), 0, [k \in 1..K |-> k]),
                        K * Prod(lens)>>
PooledCoverage(c) == <<Cardinality({i \in DOMAIN seen : seen[i][c] \notin MissingSyms}), Len(seen)>>
\* with equal batch sizes the mean of the per-batch shares is the pooled share; with unequal ones it need not be
MeanIsPooledForEqualBatches ==
    \A c \in Cols : (hist # <<>> /\ \A k \in DOMAIN hist : Len(hist[k]) = Len(hist[1])) =>
        MeanCoverage(c)[1] * PooledCoverage(c)[2] = PooledCoverage(c)[1] * MeanCoverage(c)[2]
Emit == (buf = <<>> /\ hist # <<>>) => PrintT(<<"CASE", hist, sk, cnt, rare, cov>>)
=============================================================================
