---------------------------- MODULE TraceQuality ----------------------------
(* Trace validation of the data-quality state recorded after every mini-batch of a real  *)
(* run.  ndjson: {"e":"begin"} (fresh process) and                                       *)
(*  {"e":"batch","cols":[names],"rows":[[cell,...],...],                                 *)
(*   "card":{col:n},"hist":{col:{value:n}},"rare":[[col,value,n],...],                   *)
(*   "cov":{col: round(percent*1024)}}                                                   *)
(* TLC keeps the ghost `seen` (all rows consumed so far) and accepts a batch event iff   *)
(* every recorded statistic equals its exact recomputation (DataQuality.tla's            *)
(* invariants evaluated on the recorded state).                                          *)
EXTENDS Naturals, Integers, Sequences, FiniteSets, FiniteSetsExt, SequencesExt, TLC, Json, IOUtils

CONSTANTS Thr, Bound, RareTask, MissingSyms, EmptyVal

VARIABLES l, seen, ncov
Trace == ndJsonDeserialize(IOEnv.TRACE_FILE)

Idx(cols, c) == CHOOSE i \in DOMAIN cols : cols[i] = c
ColVals(rs, i) == {rs[k][i] : k \in DOMAIN rs}
Occ(rs, i, v) == Cardinality({k \in DOMAIN rs : rs[k][i] = v})
Abs(x) == IF x < 0 THEN -x ELSE x

BatchOK(ev, all) ==
    /\ \A i \in DOMAIN ev.cols :
        LET c == ev.cols[i]
            dist == ColVals(all, i)
        IN /\ ev.card[c] = Cardinality(dist \ {EmptyVal})                                  \* CardinalityExact
           /\ (Cardinality(dist) < Bound =>                                                 \* HistogramExact
                 /\ DOMAIN ev.hist[c] = dist
                 /\ \A v \in dist : ev.hist[c][v] = Occ(all, i, v))
           /\ Cardinality(DOMAIN ev.hist[c]) <= Bound                                       \* never more than Bound keys
           /\ \A v \in DOMAIN ev.hist[c] : ev.hist[c][v] <= Occ(all, i, v)                  \* never over-counts
           /\ LET present == Cardinality({k \in DOMAIN ev.rows : ev.rows[k][i] \notin MissingSyms})
              IN Abs(ev.cov[c] * Len(ev.rows) - present * 102400) <= Len(ev.rows)          \* coverage of THIS batch
    /\ (RareTask =>                                                                         \* RareReportExact
          /\ {<<ev.rare[j][1], ev.rare[j][2]>> : j \in DOMAIN ev.rare}
               = {<<ev.cols[i], v>> : i \in DOMAIN ev.cols, v \in UNION {ColVals(all, i2) : i2 \in DOMAIN ev.cols}}
                 \cap {p \in {<<ev.cols[i], v>> : i \in DOMAIN ev.cols, v \in UNION {ColVals(all, i2) : i2 \in DOMAIN ev.cols}} :
                          LET n == Occ(all, Idx(ev.cols, p[1]), p[2]) IN n > 0 /\ n <= Thr}
          /\ \A j \in DOMAIN ev.rare : ev.rare[j][3] = Occ(all, Idx(ev.cols, ev.rare[j][1]), ev.rare[j][2]))

Init == l = 1 /\ seen = <<>> /\ ncov = 0
Begin == l <= Len(Trace) /\ Trace[l].e = "begin" /\ seen' = <<>> /\ ncov' = 0 /\ l' = l + 1
Batch == /\ l <= Len(Trace) /\ Trace[l].e = "batch"
         /\ BatchOK(Trace[l], seen \o Trace[l].rows)
         /\ seen' = seen \o Trace[l].rows
         /\ ncov' = ncov + 1
         /\ l' = l + 1
Next == Begin \/ Batch
Spec == Init /\ [][Next]_<<l, seen, ncov>>
Accepted == TLCGet("stats").diameter - 1 = Len(Trace)
=============================================================================
