------------------------------ MODULE Trace3MR ------------------------------
(* Trace validation of the real rank_features_3MR: every recorded call is                *)
(*  {"e":"begin","features":[..],"rel":{f:int},"red":[[g,f,int]..],"rln":[[g,f,int]..],   *)
(*   "strategy":s,"an":2*alpha,"bn":2*beta,"tol":t}                                       *)
(*  {"e":"pick","f":feature,"rank":r}  (one per row of the returned frame, in order)      *)
(*  {"e":"end"}                                                                           *)
(* A pick is accepted iff it is Ranking3MR's Pick: the feature is unranked and its        *)
(* importance is maximal among the remaining ones (within tol units of 4k*importance,     *)
(* tol = 0 for integer dictionaries); ranks must be 1..n in list order.                   *)
EXTENDS Naturals, Integers, Sequences, FiniteSets, FiniteSetsExt, SequencesExt, TLC, Json, IOUtils

VARIABLES l, call, ranked
Trace == ndJsonDeserialize(IOEnv.TRACE_FILE)
Get(d, k) == IF k \in DOMAIN d THEN d[k] ELSE 0
SortedInts(s) == SortSeq(s, LAMBDA a, b : a < b)
Median2(s) == LET t == SortedInts(s)  n == Len(s)
              IN IF n % 2 = 1 THEN 2 * t[(n + 1) \div 2] ELSE t[n \div 2] + t[n \div 2 + 1]
SumSeq(s) == FoldLeft(LAMBDA a, b : a + b, 0, s)
RangeOf(s) == {s[i] : i \in DOMAIN s}
PairDict(lst) == [k \in {<<lst[i][1], lst[i][2]>> : i \in DOMAIN lst} |->
                    lst[CHOOSE i \in DOMAIN lst : <<lst[i][1], lst[i][2]>> = k /\ \A j \in DOMAIN lst : <<lst[j][1], lst[j][2]>> = k => j <= i][3]]
Agg2k(st, d, rk, f) == LET vals == [i \in DOMAIN rk |-> Get(d, <<rk[i], f>>)]  k == Len(rk)
                       IN CASE st = "median" -> k * Median2(vals)
                            [] st = "mean"   -> 2 * SumSeq(vals)
                            [] OTHER         -> 2 * k * SumSeq(vals)
Imp4k(c, rk, f) == 4 * Len(rk) * c.rel[f] - c.an * Agg2k(c.strategy, c.red, rk, f) + c.bn * Agg2k(c.strategy, c.rln, rk, f)
IsMaximiser(c, rk, f) ==
    LET F == RangeOf(c.features)  rest == F \ RangeOf(rk) IN
    /\ f \in rest
    /\ IF rk = <<>> THEN \A g \in F : c.rel[g] <= c.rel[f] + c.tol
       ELSE \A g \in rest : Imp4k(c, rk, g) <= Imp4k(c, rk, f) + c.tol

Init == l = 1 /\ call = <<>> /\ ranked = <<>>
Begin == /\ l <= Len(Trace) /\ Trace[l].e = "begin"
         /\ call' = [features |-> Trace[l].features, rel |-> Trace[l].rel, red |-> PairDict(Trace[l].red), rln |-> PairDict(Trace[l].rln),
                     strategy |-> Trace[l].strategy, an |-> Trace[l].an, bn |-> Trace[l].bn, tol |-> Trace[l].tol]
         /\ ranked' = <<>> /\ l' = l + 1
PickEv == /\ l <= Len(Trace) /\ Trace[l].e = "pick"
          /\ IsMaximiser(call, ranked, Trace[l].f)
          /\ Trace[l].rank = Len(ranked) + 1                           \* ranks are 1..n in list order
          /\ ranked' = Append(ranked, Trace[l].f) /\ call' = call /\ l' = l + 1
End == /\ l <= Len(Trace) /\ Trace[l].e = "end"
       /\ RangeOf(ranked) = RangeOf(call.features) /\ Len(ranked) = Cardinality(RangeOf(call.features))   \* every feature exactly once
       /\ UNCHANGED <<call, ranked>> /\ l' = l + 1
Next == Begin \/ PickEv \/ End
Spec == Init /\ [][Next]_<<l, call, ranked>>
Accepted == TLCGet("stats").diameter - 1 = Len(Trace)
=============================================================================
