-------------------------------- MODULE CMS --------------------------------
(***************************************************************************)
(* algorithms/sketches/counting_cms.CountMinSketch: D rows of W counters,  *)
(* one location per row and item given by an ARBITRARY function Hash       *)
(* (chosen nondeterministically at Init: every hash function is explored), *)
(* update adds the weight at the item's location in every row, query is    *)
(* the minimum over the rows.  Ghosts: truth[x], total.                    *)
(* Second machine: the bounded exact counter PrimitiveConstrainedCounter.  *)
(***************************************************************************)
EXTENDS Naturals, Integers, Sequences, FiniteSets, FiniteSetsExt, TLC

CONSTANTS D, W, Items, Weights, MaxLen, Bound,
          QueryOtherHash,  \* named deviation: query uses a different location than update for row 1
          BatchCellOnce,   \* named deviation: a vectorised batch_add (M[i, locs] += w) touches every cell at most once per call
          LookupInserts    \* named deviation: looking up the running count of a value creates a zero entry for it (defaultdict storage)

VARIABLES hashf, Mx, truth, total, steps, cnt, ctruth, chist
vars == <<hashf, Mx, truth, total, steps, cnt, ctruth, chist>>

Rows == 1..D
Locs == 0..(W - 1)
Init == /\ hashf \in [Items -> [Rows -> Locs]]
        /\ Mx = [i \in Rows |-> [j \in Locs |-> 0]]
        /\ truth = [x \in Items |-> 0] /\ total = 0 /\ steps = 0
        /\ cnt = <<>> /\ ctruth = [x \in Items |-> 0] /\ chist = <<>>

Update(x, w) == /\ steps < MaxLen
                /\ Mx' = [i \in Rows |-> [j \in Locs |-> IF j = hashf[x][i] THEN Mx[i][j] + w ELSE Mx[i][j]]]
                /\ truth' = [truth EXCEPT ![x] = @ + w]
                /\ total' = total + w /\ steps' = steps + 1
                /\ UNCHANGED <<hashf, cnt, ctruth, chist>>
\* batch_add(lst, delta): the whole list in one call - every element adds delta at its own
\* location, so two elements sharing a cell (equal items or colliding ones) both count
Mult(lst, i, j) == Cardinality({k \in DOMAIN lst : hashf[lst[k]][i] = j})
BatchUpdate(lst, w) == /\ steps < MaxLen
                       /\ Mx' = [i \in Rows |-> [j \in Locs |-> Mx[i][j] + w * (IF BatchCellOnce /\ Mult(lst, i, j) > 1 THEN 1 ELSE Mult(lst, i, j))]]
                       /\ truth' = [x \in Items |-> truth[x] + w * Cardinality({k \in DOMAIN lst : lst[k] = x})]
                       /\ total' = total + w * Len(lst) /\ steps' = steps + 1
                       /\ UNCHANGED <<hashf, cnt, ctruth, chist>>
BatchLists == UNION {[1..n -> Items] : n \in 0..3}
QLoc(x, i) == IF QueryOtherHash /\ i = 1 THEN (hashf[x][i] + 1) % W ELSE hashf[x][i]
Query(x) == Min({Mx[i][QLoc(x, i)] : i \in Rows})
RowSum(i) == FoldSet(LAMBDA j, s : Mx[i][j] + s, 0, Locs)

\* bounded counter: add(val) counts only while fewer than Bound keys are tracked
CAdd(x) == /\ Len(chist) < MaxLen
           /\ cnt' = IF Cardinality(DOMAIN cnt) < Bound
                     THEN [k \in (DOMAIN cnt) \cup {x} |-> IF k = x THEN (IF x \in DOMAIN cnt THEN cnt[x] + 1 ELSE 1) ELSE cnt[k]]
                     ELSE cnt
           /\ ctruth' = [ctruth EXCEPT ![x] = @ + 1]
           /\ chist' = Append(chist, x)
           /\ UNCHANGED <<hashf, Mx, truth, total, steps>>

\* a caller reads the running count of a value (seen or not): not a feed - the counter is unchanged
CLookup(x) == /\ Len(chist) < MaxLen
              /\ cnt' = IF LookupInserts /\ x \notin DOMAIN cnt THEN [k \in (DOMAIN cnt) \cup {x} |-> IF k = x THEN 0 ELSE cnt[k]] ELSE cnt
              /\ UNCHANGED <<hashf, Mx, truth, total, steps, ctruth, chist>>

Next == (\E x \in Items : \E w \in Weights : Update(x, w)) \/ (\E x \in Items : CAdd(x))
NextCMS == \E x \in Items : \E w \in Weights : Update(x, w)
NextCMSBatch == \/ \E x \in Items : \E w \in Weights : Update(x, w)
                \/ \E lst \in BatchLists : \E w \in Weights : BatchUpdate(lst, w)
NextCounter == \E x \in Items : (CAdd(x) \/ CLookup(x))
Spec == Init /\ [][Next]_vars

\* ---- C15
NeverUnder == \A x \in Items : Query(x) >= truth[x]
NeverOverTotal == \A x \in Items : Query(x) <= total
RowSumsAreTotal == \A i \in Rows : RowSum(i) = total
CSeen == {chist[i] : i \in DOMAIN chist}
NeverOverCounts == \A x \in DOMAIN cnt : cnt[x] <= ctruth[x]
ExactBelowBound == Cardinality(CSeen) < Bound => (DOMAIN cnt = CSeen /\ \A x \in CSeen : cnt[x] = ctruth[x])
AtMostBoundKeys == Cardinality(DOMAIN cnt) <= (IF Bound > 0 THEN Bound ELSE 0)
EmitCounter == chist # <<>> => PrintT(<<"CASE", chist, cnt>>)
=============================================================================
