---------------------------- MODULE TraceSummary ----------------------------
(* Validation of the real task_summary outputs against the specified summary.            *)
(* One ndjson record per run:                                                            *)
(*  {"label":L, "mi":bool (heuristic name contains "MI"), "order":k,                     *)
(*   "table":[[A0,B0,s],...]   pairwise_ranks rows: base names (annotation removed,       *)
(*                             i.e. the name before the first "-") and integer scores,    *)
(*   "parts":{feature:[constituents]} for interaction features (" AND " in the name),     *)
(*   "singles":[[feature0, v],...]  feature_singles.tsv rows in file order, v =           *)
(*                             round(score*2^16),                                         *)
(*   "agg":[[constituent, v],...] | [] feature_singles_aggregated.tsv}                    *)
(* Specified: LabelRows -> PerFeatureMedian -> SortDescending -> MinMax (MI heuristics)   *)
(* -> PerConstituentMedian over the interaction features.                                 *)
EXTENDS Naturals, Integers, Sequences, FiniteSets, FiniteSetsExt, SequencesExt, TLC, Json, IOUtils

VARIABLE l
Trace == ndJsonDeserialize(IOEnv.TRACE_FILE)
SC == 65536
Abs(x) == IF x < 0 THEN -x ELSE x
RangeOf(s) == {s[i] : i \in DOMAIN s}
SortedInts(s) == SortSeq(s, LAMBDA a, b : a < b)
Median2(s) == LET t == SortedInts(s)  n == Len(s)
              IN IF n % 2 = 1 THEN 2 * t[(n + 1) \div 2] ELSE t[n \div 2] + t[n \div 2 + 1]

\* scores of feature f against the label (either orientation; duplicates kept)
LabelScores(r, f) == LET rows == SelectSeq(r.table, LAMBDA t : (t[1] = r.label /\ t[2] = f) \/ (t[1] # r.label /\ t[2] = r.label /\ t[1] = f))
                     IN [i \in DOMAIN rows |-> rows[i][3]]
LabelFeatures(r) == {t[2] : t \in {x \in RangeOf(r.table) : x[1] = r.label}} \cup {t[1] : t \in {x \in RangeOf(r.table) : x[1] # r.label /\ x[2] = r.label}}
Med2(r, f) == Median2(LabelScores(r, f))                 \* doubled median (integer)
Lo(r) == Min({Med2(r, f) : f \in LabelFeatures(r)})
Hi(r) == Max({Med2(r, f) : f \in LabelFeatures(r)})
\* v (scaled by SC) equals the specified score of f within one unit
ScoreMatches(r, f, v) ==
    IF r.mi /\ Hi(r) > Lo(r)
    THEN Abs(v * (Hi(r) - Lo(r)) - (Med2(r, f) - Lo(r)) * SC) <= Hi(r) - Lo(r)        \* (m - min) / (max - min)
    ELSE IF r.mi THEN TRUE                                                                \* max = min: normalisation undefined
    ELSE Abs(2 * v - Med2(r, f) * SC) <= 2
SinglesOK(r) ==
    /\ {r.singles[i][1] : i \in DOMAIN r.singles} = LabelFeatures(r)                      \* every feature scored against the label
    /\ Len(r.singles) = Cardinality(LabelFeatures(r))                                     \* ... exactly once
    /\ \A i \in DOMAIN r.singles : ScoreMatches(r, r.singles[i][1], r.singles[i][2])      \* median (normalised for MI)
    /\ \A i \in 1..(Len(r.singles) - 1) : Med2(r, r.singles[i][1]) >= Med2(r, r.singles[i + 1][1])   \* descending; order preserved by the normalisation
    /\ (r.mi /\ Hi(r) > Lo(r) => /\ \E i \in DOMAIN r.singles : Abs(r.singles[i][2] - SC) <= 1     \* best = 1
                                 /\ \E i \in DOMAIN r.singles : Abs(r.singles[i][2]) <= 1)         \* worst = 0
\* aggregated table: per constituent the median of the (written) scores of the interactions it takes part in
Written(r, f) == r.singles[CHOOSE i \in DOMAIN r.singles : r.singles[i][1] = f][2]
Inter(r) == {f \in LabelFeatures(r) : f \in DOMAIN r.parts}
Constituents(r) == UNION {RangeOf(r.parts[f]) : f \in Inter(r)}
AggOK(r) ==
    IF r.order <= 1 THEN r.agg = <<>>
    ELSE /\ {r.agg[i][1] : i \in DOMAIN r.agg} = Constituents(r)
         /\ Len(r.agg) = Cardinality(Constituents(r))
         /\ \A i \in DOMAIN r.agg :
               LET c == r.agg[i][1]
                   fs == SetToSeq({f \in Inter(r) : c \in RangeOf(r.parts[f])})
                   vals == [j \in DOMAIN fs |-> Written(r, fs[j])]
               IN Abs(2 * r.agg[i][2] - Median2(vals)) <= 2

Init == l = 1
Next == l <= Len(Trace) /\ SinglesOK(Trace[l]) /\ AggOK(Trace[l]) /\ l' = l + 1
Spec == Init /\ [][Next]_l
Accepted == TLCGet("stats").diameter - 1 = Len(Trace)
=============================================================================
