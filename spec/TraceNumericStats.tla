------------------------- MODULE TraceNumericStats -------------------------
(* Trace validation of real ranking runs against NumericStats.tla.  ndjson:                 *)
(*  {"e":"config","mb":MB}                                                                  *)
(*  {"e":"batch","vals":[cell,...]}   the numeric column's cells of one processed batch, in *)
(*                                    order (NaN = -1); a batch shorter than MB is the tail *)
(*  {"e":"table","present":b,"nan":b,"mn":i,"mx":i,"med100":i,"uq":i}                       *)
(*                                    the row of numeric_feature_statistics.tsv (med100 =   *)
(*                                    the written Median * 100, the file rounds to 2 places)*)
(* The batch events drive LoopBatch / CloseFile (composed with the AddRow steps that fill   *)
(* the buffer); the table event is accepted iff it is the table Summarise computes.         *)
EXTENDS NumericStats, Json, IOUtils
VARIABLE l
Trace == ndJsonDeserialize(IOEnv.TRACE_FILE)
TInit == /\ l = 2 /\ Trace[1].e = "config" /\ Trace[1].mb = MB
         /\ buf = <<>> /\ loop = <<>> /\ tail = <<>> /\ pc = "read" /\ table = <<>>
TBatch == /\ l <= Len(Trace) /\ Trace[l].e = "batch" /\ pc = "read"
          /\ LET vals == Trace[l].vals IN
             /\ \A i \in DOMAIN vals : vals[i] = NaN \/ vals[i] >= 0
             /\ IF Len(vals) = MB THEN /\ loop' = Append(loop, vals) /\ UNCHANGED <<tail, pc>>       \* AddRow x MB . LoopBatch
                ELSE /\ Len(vals) > TailMin /\ Len(vals) < MB /\ tail' = vals /\ pc' = "closed" /\ UNCHANGED loop   \* CloseFile with a tail
          /\ UNCHANGED <<buf, table>> /\ l' = l + 1
Abs(x) == IF x < 0 THEN -x ELSE x
TTable == /\ l <= Len(Trace) /\ Trace[l].e = "table"
          /\ LET ev == Trace[l]
                 S == [k \in DOMAIN loop |-> Summary(loop[k])]
                 anyNaN == \E k \in DOMAIN S : S[k].nan
                 med == MedianRat([k \in DOMAIN S |-> S[k].mean])
             IN IF loop = <<>> THEN ~ev.present
                ELSE /\ ev.present
                     /\ ev.nan = anyNaN
                     /\ ev.uq = SumSeq([k \in DOMAIN S |-> S[k].uq]) \div Len(S)
                     /\ ~anyNaN => /\ ev.mn = Min({S[k].mn : k \in DOMAIN S})
                                   /\ ev.mx = Max({S[k].mx : k \in DOMAIN S})
                                   /\ 2 * Abs(ev.med100 * med[2] - 100 * med[1]) <= med[2] + 1      \* rounded to 2 decimals
          /\ pc' = "done" /\ UNCHANGED <<buf, loop, tail, table>> /\ l' = l + 1
TNext == TBatch \/ TTable
TSpec == TInit /\ [][TNext]_<<vars, l>>
Accepted == TLCGet("stats").diameter = Len(Trace)
=============================================================================
