--------------------------- MODULE MISampleTrace ---------------------------
(* Validates recorded outputs of the real stratified_subsampling against the specified   *)
(* sample.  ndjson line: {"x": [...], "final": floor(r*n), "rows": [1-based row indices   *)
(* the real code gathered]}.  TLC recomputes the specified sample from the definition:    *)
(* per distinct target value, ascending, the first floor(final/#values) rows carrying it; *)
(* all rows when that quota is 0.                                                         *)
EXTENDS Naturals, Integers, Sequences, FiniteSets, FiniteSetsExt, TLC, Json, IOUtils

VARIABLE l
Trace == ndJsonDeserialize(IOEnv.TRACE_FILE)

ValsOf(v) == {v[i] : i \in DOMAIN v}
RowsWith(v, b) == {i \in DOMAIN v : v[i] = b}
FirstQ(T, q) == {i \in T : Cardinality({j \in T : j < i}) < q}
AscSeq(T) == LET RECURSIVE F(_)
                 F(U) == IF U = {} THEN <<>> ELSE LET m == Min(U) IN <<m>> \o F(U \ {m})
             IN F(T)
SpecSampleF(xv, final) ==
    LET q == final \div Cardinality(ValsOf(xv)) IN
    IF q = 0 THEN [i \in DOMAIN xv |-> i]
    ELSE LET RECURSIVE G(_)
             G(U) == IF U = {} THEN <<>>
                     ELSE LET b == Min(U) IN AscSeq(FirstQ(RowsWith(xv, b), q)) \o G(U \ {b})
         IN G(ValsOf(xv))

Init == l = 1
Next == l <= Len(Trace) /\ l' = l + 1
Spec == Init /\ [][Next]_l

SampleIsSpecified == l <= Len(Trace) => Trace[l].rows = SpecSampleF(Trace[l].x, Trace[l].final)
Accepted == TLCGet("stats").diameter - 1 = Len(Trace)
=============================================================================
