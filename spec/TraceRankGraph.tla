-------------------------- MODULE TraceRankGraph --------------------------
(* Trace validation of recorded mini-batches of the real mixed_rank_graph.                *)
(* ndjson record: {"cols":[names], "rel":[names containing " AND_REL "], "label":name,    *)
(*   "mode":"target"|"pairwise", "kind":"scoring"|"scoring3mr"|"Constant", "cap":c,       *)
(*   "ncand": length of the real candidate list, "ndup": how many of its entries repeat   *)
(*   a pair listed earlier, "trip":[[a,b,scaled score],...]}                               *)
(* The record is accepted iff the triplets satisfy C06 against SpecPairs computed here.   *)
EXTENDS Naturals, Integers, Sequences, FiniteSets, FiniteSetsExt, TLC, Json, IOUtils

VARIABLE l
Trace == ndJsonDeserialize(IOEnv.TRACE_FILE)
RangeOf(s) == {s[i] : i \in DOMAIN s}

SpecPairs(r) ==
    LET C == RangeOf(r.cols)  R == RangeOf(r.rel)  NR == C \ R IN
    IF r.kind = "scoring3mr" THEN {{a, b} : a \in NR, b \in NR} \cup {{x, r.label} : x \in R}
    ELSE IF r.mode = "target" THEN {{f, r.label} : f \in C}
    ELSE {{a, b} : a \in C, b \in C}
PairsOf(trip) == {{trip[k][1], trip[k][2]} : k \in DOMAIN trip}
TripSet(trip) == {<<trip[k][1], trip[k][2], trip[k][3]>> : k \in DOMAIN trip}
Min2(a, b) == IF a < b THEN a ELSE b

RecordOK(r) ==
    LET nsel == IF r.kind = "Constant" THEN Len(r.trip) ELSE Len(r.trip) \div 2
        \* ClampCap: 3MR heuristics cap the number of candidates at MAX_FEATURES_3MR = 10^4
        capEff == IF r.kind = "scoring3mr" /\ r.cap > 10000 THEN 10000 ELSE r.cap IN
    /\ PairsOf(r.trip) \subseteq SpecPairs(r)                                        \* PairsExact (subset part)
    /\ Cardinality(PairsOf(r.trip)) <= Min2(capEff, r.ncand)                          \* reduced only by the cap:
    /\ Cardinality(PairsOf(r.trip)) >= Min2(capEff, r.ncand) - r.ndup                 \*   min(cap, #candidates) candidates, minus repeated pairs
    /\ (capEff >= r.ncand => PairsOf(r.trip) = SpecPairs(r))                          \* PairsExact
    /\ (r.kind # "Constant" => \A t \in TripSet(r.trip) : <<t[2], t[1], t[3]>> \in TripSet(r.trip))   \* BothOrientations
    /\ (r.kind = "Constant" => \A k \in DOMAIN r.trip : r.trip[k][3] = 0)            \* ConstantOnce
    /\ \A k \in DOMAIN r.trip : r.trip[k][1] \in RangeOf(r.cols) /\ r.trip[k][2] \in RangeOf(r.cols)   \* NoForeignColumn

Init == l = 1
Next == l <= Len(Trace) /\ RecordOK(Trace[l]) /\ l' = l + 1
Spec == Init /\ [][Next]_l
Accepted == TLCGet("stats").diameter - 1 = Len(Trace)
=============================================================================
