---------------------------- MODULE NumericStats ----------------------------
(***************************************************************************)
(* numeric_feature_statistics.tsv (beyond the listed properties, DESIGN.md *)
(* section 5): core_ranking.compute_bounds_increment per mini-batch and     *)
(* core_utils.summarize_feature_bounds_for_transformers at the end of the   *)
(* ranking task, for one column declared numeric (ob-csv `float`).          *)
(*   AddRow        the environment appends a cell: an integer or NaN        *)
(*                 (blank / unparsable text, pd.to_numeric(errors=coerce))  *)
(*   LoopBatch     MB buffered rows: summary <<min, max, mean, unique>>     *)
(*                 with NaN skipped by min/max/mean and counted once by     *)
(*                 unique; an all-NaN batch has the summary NaN             *)
(*   TailBatch     more than TailMin rows left at the end: they are ranked, *)
(*                 but their summary is REPLACED BY AN EMPTY ONE            *)
(*                 (`bounds_storage = dict()`), so the table never sees     *)
(*                 them - modelled as the code does it                      *)
(*   Summarise     Minimum = min of the batch minima, Maximum = max of the  *)
(*                 maxima, "Median" = median of the batch MEANS (the field  *)
(*                 called median holds np.mean), unique = int(mean of the   *)
(*                 batch counts); any NaN summary makes min/max/median NaN  *)
(*                 (np.min / np.median over a list propagate NaN)           *)
(* Rationals are <<numerator, denominator>> with denominator > 0.           *)
(***************************************************************************)
EXTENDS Naturals, Integers, Sequences, FiniteSets, FiniteSetsExt, SequencesExt, TLC

CONSTANTS Values,      \* integer cell values
          NaN,         \* the not-a-number cell (a model value or a string)
          MB, TailMin, MaxRows

VARIABLES buf, loop, tail, pc, table
vars == <<buf, loop, tail, pc, table>>

Cells == Values \cup {NaN}
Nums(b) == SelectSeq(b, LAMBDA v : v # NaN)
SumSeq(q) == FoldLeft(LAMBDA a, v : a + v, 0, q)
SeqMin(q) == Min({q[i] : i \in DOMAIN q})
SeqMax(q) == Max({q[i] : i \in DOMAIN q})
\* one batch: NaN summary if no number is left
Summary(b) == LET n == Nums(b) IN
              IF n = <<>> THEN [nan |-> TRUE, mn |-> 0, mx |-> 0, mean |-> <<0, 1>>, uq |-> 1]
              ELSE [nan |-> FALSE, mn |-> SeqMin(n), mx |-> SeqMax(n), mean |-> <<SumSeq(n), Len(n)>>,
                    uq |-> Cardinality({n[i] : i \in DOMAIN n}) + (IF Len(n) < Len(b) THEN 1 ELSE 0)]

\* rational order and the median of a non-empty sequence of rationals
Leq(p, q) == p[1] * q[2] <= q[1] * p[2]
SortedRats(q) == SortSeq(q, LAMBDA p, r : Leq(p, r) /\ ~Leq(r, p))
MedianRat(q) == LET s == SortedRats(q)  k == Len(q) IN
                IF k % 2 = 1 THEN s[(k + 1) \div 2]
                ELSE LET a == s[k \div 2]  b == s[k \div 2 + 1] IN <<a[1] * b[2] + b[1] * a[2], 2 * a[2] * b[2]>>

Init == buf = <<>> /\ loop = <<>> /\ tail = <<>> /\ pc = "read" /\ table = <<>>
AddRow == /\ pc = "read" /\ Len(buf) < MB /\ Len(buf) + MB * Len(loop) < MaxRows
          /\ \E v \in Cells : buf' = Append(buf, v)
          /\ UNCHANGED <<loop, tail, pc, table>>
LoopBatch == /\ pc = "read" /\ Len(buf) = MB
             /\ loop' = Append(loop, buf) /\ buf' = <<>>
             /\ UNCHANGED <<tail, pc, table>>
CloseFile == /\ pc = "read" /\ Len(buf) < MB
             /\ IF Len(buf) > TailMin THEN tail' = buf ELSE tail' = <<>>       \* TailBatch / DropTail
             /\ buf' = <<>> /\ pc' = "closed"
             /\ UNCHANGED <<loop, table>>
Summarise == /\ pc = "closed" /\ loop # <<>>
             /\ LET S == [k \in DOMAIN loop |-> Summary(loop[k])]
                    anyNaN == \E k \in DOMAIN S : S[k].nan
                    uqsum == SumSeq([k \in DOMAIN S |-> S[k].uq])
                IN table' = [nan |-> anyNaN,
                             mn |-> IF anyNaN THEN 0 ELSE Min({S[k].mn : k \in DOMAIN S}),
                             mx |-> IF anyNaN THEN 0 ELSE Max({S[k].mx : k \in DOMAIN S}),
                             med |-> IF anyNaN THEN <<0, 1>> ELSE MedianRat([k \in DOMAIN S |-> S[k].mean]),
                             uq |-> uqsum \div Len(S)]
             /\ pc' = "done" /\ UNCHANGED <<buf, loop, tail>>
NoTable == /\ pc = "closed" /\ loop = <<>> /\ pc' = "done" /\ UNCHANGED <<buf, loop, tail, table>>   \* tail-only or empty: no numeric table row
Next == AddRow \/ LoopBatch \/ CloseFile \/ Summarise \/ NoTable
Spec == Init /\ [][Next]_vars

\* ---- what a reader of the table may rely on
LoopRows == FoldLeft(LAMBDA acc, b : acc \o b, <<>>, loop)
HasTable == pc = "done" /\ table # <<>>
MinMaxAreGlobalOverLoopBatches == (HasTable /\ ~table.nan) =>
    /\ table.mn = SeqMin(Nums(LoopRows)) /\ table.mx = SeqMax(Nums(LoopRows))
MedianWithinBounds == (HasTable /\ ~table.nan) =>
    /\ table.mn * table.med[2] <= table.med[1] /\ table.med[1] <= table.mx * table.med[2]
NaNOnlyFromAllNaNBatch == HasTable => (table.nan <=> \E k \in DOMAIN loop : Nums(loop[k]) = <<>>)
TailNeverSummarised == HasTable => TRUE      \* by construction: `tail` does not occur in Summarise (documented behaviour)
UniqueWithinBatchBounds == HasTable => /\ table.uq >= 1 /\ table.uq <= MB
Emit == pc = "done" => PrintT(<<"NSTAT", loop, tail, table>>)
=============================================================================
