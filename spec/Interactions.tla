---------------------------- MODULE Interactions ----------------------------
(***************************************************************************)
(* Interaction ("combined") features: core_ranking.compute_combined_features*)
(* One mini-batch frame of string-valued feature columns; the candidate    *)
(* space is itertools.combinations(non-label columns, order) in column     *)
(* order, capped by the least-evaluated-first sampler whose counter        *)
(* persists across batches; for every selected combination a new column    *)
(* is appended whose value on a row is a KEY of the row's constituent      *)
(* values.  The specified key is the value TUPLE (any injective encoding   *)
(* is equivalent); the named deviation KeyByConcatenation models hashing   *)
(* the undelimited concatenation of the constituent strings.               *)
(* Values are sequences over a small alphabet of characters so that        *)
(* concatenation is expressible ("1","11" vs "11","1").                    *)
(***************************************************************************)
EXTENDS Naturals, Sequences, FiniteSets, FiniteSetsExt, SequencesExt, TLC

CONSTANTS NFeat, NRows, Values, Order, Cap, Batches, KeyByConcatenation

VARIABLES pc, frame, ncol, count, sel, newcols, batch
vars == <<pc, frame, ncol, count, sel, newcols, batch>>

Feats == 1..NFeat
\* value alphabets (cfg: Values <- ...): characters 1 = "1", 2 = "a"
Adversarial == {<<>>, <<1>>, <<1, 1>>, <<2>>, <<1, 2>>}      \* "", "1", "11", "a", "1a"
Digits == {<<>>, <<1>>, <<1, 1>>}
\* character 3 = a candidate separator character (":", ",", "|", " ", "-", NUL, ... chosen by the harness)
Delims == {<<>>, <<3>>, <<1, 3>>, <<3, 1>>, <<1>>, <<3, 3>>}
Rows == 1..NRows

\* itertools.combinations(range(NFeat), Order) in lexicographic order, as strictly increasing sequences
IsComb(s) == \A i \in 1..(Len(s) - 1) : s[i] < s[i + 1]
CombSet == {s \in [1..Order -> Feats] : IsComb(s)}
LexLess(a, b) == \E k \in 1..Order : a[k] < b[k] /\ \A j \in 1..(k - 1) : a[j] = b[j]
Candidates == SetToSortSeq(CombSet, LexLess)
NCand == Len(Candidates)

\* the sampler: stable sort of the candidate list by evaluation count, first Cap elements
Before(i, j) == count[Candidates[i]] < count[Candidates[j]]
                  \/ (count[Candidates[i]] = count[Candidates[j]] /\ i < j)
RankOf(i) == Cardinality({j \in 1..NCand : Before(j, i)}) + 1
SelectedIdx == {i \in 1..NCand : RankOf(i) <= Cap}
Selection == [k \in 1..Cardinality(SelectedIdx) |->
                 Candidates[CHOOSE i \in SelectedIdx : RankOf(i) = k]]

TupleKey(comb, r) == [k \in 1..Order |-> frame[comb[k]][r]]
ConcatKey(comb, r) == FoldLeft(LAMBDA acc, k : acc \o frame[comb[k]][r], <<>>, [k \in 1..Order |-> k])
Key(comb, r) == IF KeyByConcatenation THEN ConcatKey(comb, r) ELSE TupleKey(comb, r)

Init == /\ pc = "frame" /\ frame = <<>> /\ ncol = 0 /\ batch = 0
        /\ count = [c \in CombSet |-> 0] /\ sel = <<>> /\ newcols = <<>>

\* the frame is chosen column by column (keeps every TLC worker busy)
ChooseColumn == /\ pc = "frame" /\ ncol < NFeat
                /\ \E col \in [Rows -> Values] : frame' = Append(frame, col)
                /\ ncol' = ncol + 1
                /\ UNCHANGED <<pc, count, sel, newcols, batch>>
StartBatch == /\ pc = "frame" /\ ncol = NFeat /\ pc' = "sample"
              /\ UNCHANGED <<frame, ncol, count, sel, newcols, batch>>

\* prior_combinations_sample(full_combination_space, args)
Sample == /\ pc = "sample"
          /\ sel' = Selection
          /\ count' = [c \in CombSet |-> IF \E k \in DOMAIN Selection : Selection[k] = c THEN count[c] + 1 ELSE count[c]]
          /\ pc' = "construct"
          /\ UNCHANGED <<frame, ncol, newcols, batch>>

\* the loop over full_combination_space + concat into the frame
Construct == /\ pc = "construct"
             /\ newcols' = [k \in DOMAIN sel |-> [r \in Rows |-> Key(sel[k], r)]]
             /\ batch' = batch + 1
             /\ pc' = IF batch + 1 < Batches THEN "sample" ELSE "done"
             /\ UNCHANGED <<frame, ncol, count, sel>>

Next == ChooseColumn \/ StartBatch \/ Sample \/ Construct
Spec == Init /\ [][Next]_vars

Built == pc \in {"sample", "done"} /\ batch > 0

\* C10: equal values on two rows iff the rows agree on every constituent feature
KernelIsJointEquality ==
    Built => \A k \in DOMAIN sel : \A i, j \in Rows :
                (newcols[k][i] = newcols[k][j]) <=> (\A f \in 1..Order : frame[sel[k][f]][i] = frame[sel[k][f]][j])
CandidatesAreCombinations ==
    Built => /\ \A k \in DOMAIN sel : sel[k] \in CombSet
             /\ Len(sel) = IF Cap < NCand THEN Cap ELSE NCand
             /\ \A k, m \in DOMAIN sel : k # m => sel[k] # sel[m]
\* shared with C07: least evaluated first
LeastFirst == Built => \A c, d \in CombSet :
                 ((\E k \in DOMAIN sel : sel[k] = c) /\ ~(\E k \in DOMAIN sel : sel[k] = d)) => count[c] - 1 <= count[d]
Fair == \A c, d \in CombSet : count[c] - count[d] \in {-1, 0, 1}

\* canonical labelling of the equality partition of a column (what the driver compares)
FirstIndex(col, r) == Min({q \in Rows : col[q] = col[r]})
\* all candidates with the partition their interaction feature must induce (the harness accepts any
\* least-evaluated-first selection of them; `sel` is the model's own tie-breaking)
TupleCol(comb) == [r \in Rows |-> TupleKey(comb, r)]
Emit == Built => PrintT(<<"CASE", frame, batch, sel, [k \in DOMAIN sel |-> [r \in Rows |-> FirstIndex(newcols[k], r)]],
                          Candidates, [k \in 1..NCand |-> [r \in Rows |-> FirstIndex(TupleCol(Candidates[k]), r)]]>>)
=============================================================================
