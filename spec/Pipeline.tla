------------------------------ MODULE Pipeline ------------------------------
(***************************************************************************)
(* Task orchestration of the CLI (outrank.__main__.main and the task_*     *)
(* modules): which artefacts each task reads and writes, in which order,   *)
(* and the life cycle of the on-disk checkpoint.  One action per CLI       *)
(* invocation; the state is the set of files in the output folder plus the *)
(* checkpoint file in the working directory.                               *)
(*   Generate         --task data_generator                                *)
(*   Ranking          --task ranking                                       *)
(*   RareValues       --task identify_rare_values   (forces Constant)      *)
(*   TransformerHints --task feature_summary_transformers (forces Constant)*)
(*   Summary          --task ranking_summary                               *)
(*   Visualize        --task visualization                                 *)
(*   All              --task all = ranking ; ranking_summary ;             *)
(*                    visualization inside ONE process: when the ranking   *)
(*                    step calls exit() ("No rankings were obtained") or   *)
(*                    raises, the later steps do not run                   *)
(*   InstanceRanking  --task instance_ranking: one family of plots per     *)
(*                    FIRST CHARACTER of the raw lines (the grouping key   *)
(*                    is line[0], header line included) - modelled as the  *)
(*                    code does it                                         *)
(* The run's configuration (heuristic kind, numeric columns, whether any   *)
(* mini-batch is produced, whether a tail batch exists, interaction order, *)
(* first characters of the data file's lines) is chosen at Init.  This     *)
(* module is where the specification keeps growing beyond the listed       *)
(* properties (DESIGN.md section 5).                                       *)
(***************************************************************************)
EXTENDS Naturals, Sequences, FiniteSets, TLC

CONSTANTS MaxTasks, FirstCharSets

VARIABLES cfg, data, out, ckpt, log, crashed
vars == <<cfg, data, out, ckpt, log, crashed>>

Configs == [kind : {"scoring", "3mr", "Constant"}, numeric : BOOLEAN, batches : {"none", "loop", "tail-only", "loop+tail"}, order : {1, 2},
            chars : FirstCharSets]
RankingArtefacts(c) ==
    {"pairwise_ranks.tsv", "memory.tsv", "value_repetitions.json", "combination_estimation_counts.json", "timings.json", "arguments.json"}
    \cup (IF c.kind = "3mr" THEN {"3mr_ranks.tsv"} ELSE {})
    \cup (IF c.numeric /\ c.batches \in {"loop", "loop+tail"} THEN {"numeric_feature_statistics.tsv"} ELSE {})      \* NumericStats.tla: only loop batches are summarised
SummaryArtefacts(c) == {"feature_singles.tsv", "feature_singles_transformers_only_imp.tsv"}
                       \cup (IF c.order > 1 THEN {"feature_singles_aggregated.tsv"} ELSE {})
VisArtefacts == {"heatmap.pdf", "dendrogram_complete.pdf", "SilhouetteProfile.pdf", "TopClustering.tsv",
                 "barplot_top_3.pdf", "barplot_top_10.pdf", "barplot_top_25.pdf", "barplot_top_50.pdf", "barplot_top_100.pdf"}
InstanceArtefacts(c) == {"distPlot_" \o ch : ch \in c.chars}
\* the checkpoint is written inside the loop for scoring heuristics and unconditionally after a tail batch
CheckpointWritten(c) == \/ (c.kind # "Constant" /\ c.batches \in {"loop", "loop+tail"})
                        \/ c.batches \in {"tail-only", "loop+tail"}

\* ---- effects of the three steps of `all`, as functions of (files, checkpoint)
RankEff(o, k) ==
    IF cfg.batches = "none"
    THEN [out |-> o, ckpt |-> k, crashed |-> FALSE, stop |-> TRUE]                       \* 'No rankings were obtained, exiting ..': exit()
    ELSE IF CheckpointWritten(cfg) \/ k
         THEN [out |-> o \cup RankingArtefacts(cfg), ckpt |-> FALSE, crashed |-> FALSE, stop |-> FALSE]     \* os.remove(checkpoint)
         ELSE \* Constant heuristic without a tail batch: nothing wrote the checkpoint, os.remove raises
              [out |-> o \cup RankingArtefacts(cfg), ckpt |-> FALSE, crashed |-> TRUE, stop |-> TRUE]
SumEff(o) == IF "pairwise_ranks.tsv" \in o THEN [out |-> o \cup SummaryArtefacts(cfg), crashed |-> FALSE]
             ELSE [out |-> o, crashed |-> TRUE]                                           \* FileNotFoundError
VisEff(o) == IF "pairwise_ranks.tsv" \in o THEN [out |-> o \cup VisArtefacts, crashed |-> FALSE]
             ELSE [out |-> o, crashed |-> TRUE]

Init == /\ cfg \in Configs /\ data = FALSE /\ out = {} /\ ckpt = FALSE /\ log = <<>> /\ crashed = FALSE
CanRun == Len(log) < MaxTasks            \* `crashed` describes the LAST invocation only: each task is its own process
Generate == /\ CanRun /\ data' = TRUE /\ log' = Append(log, "data_generator")
            /\ crashed' = FALSE /\ UNCHANGED <<cfg, out, ckpt>>
Ranking == /\ CanRun /\ data
           /\ log' = Append(log, "ranking")
           /\ LET r == RankEff(out, ckpt) IN out' = r.out /\ ckpt' = r.ckpt /\ crashed' = r.crashed
           /\ UNCHANGED <<cfg, data>>
RareValues == /\ CanRun /\ data
              /\ log' = Append(log, "identify_rare_values")
              /\ out' = out \cup {"rare_values.tsv", "feature_sparsity_summary.tsv"}
              /\ ckpt' = (ckpt \/ cfg.batches \in {"tail-only", "loop+tail"})        \* exit() before the clean-up
              /\ crashed' = FALSE /\ UNCHANGED <<cfg, data>>
TransformerHints == /\ CanRun /\ data
                    /\ log' = Append(log, "feature_summary_transformers")
                    /\ ckpt' = (ckpt \/ cfg.batches \in {"tail-only", "loop+tail"})
                    /\ crashed' = FALSE /\ UNCHANGED <<cfg, data, out>>
Summary == /\ CanRun
           /\ log' = Append(log, "ranking_summary")
           /\ LET s == SumEff(out) IN out' = s.out /\ crashed' = s.crashed
           /\ UNCHANGED <<cfg, data, ckpt>>
Visualize == /\ CanRun
             /\ log' = Append(log, "visualization")
             /\ LET v == VisEff(out) IN out' = v.out /\ crashed' = v.crashed
             /\ UNCHANGED <<cfg, data, ckpt>>
All == /\ CanRun /\ data
       /\ log' = Append(log, "all")
       /\ LET r == RankEff(out, ckpt) IN
          IF r.stop THEN out' = r.out /\ ckpt' = r.ckpt /\ crashed' = r.crashed
          ELSE LET s == SumEff(r.out)  v == VisEff(s.out) IN
               out' = v.out /\ ckpt' = r.ckpt /\ crashed' = (s.crashed \/ v.crashed)
       /\ UNCHANGED <<cfg, data>>
InstanceRanking == /\ CanRun /\ data
                   /\ log' = Append(log, "instance_ranking")
                   /\ out' = out \cup InstanceArtefacts(cfg)
                   /\ crashed' = FALSE /\ UNCHANGED <<cfg, data, ckpt>>
Next == Generate \/ Ranking \/ RareValues \/ TransformerHints \/ Summary \/ Visualize \/ All \/ InstanceRanking
Spec == Init /\ [][Next]_vars

\* ---- properties of the orchestration
LastTask == IF log = <<>> THEN "none" ELSE log[Len(log)]
RanksImplyArtefacts == "pairwise_ranks.tsv" \in out => RankingArtefacts(cfg) \subseteq out
SummaryImpliesRanks == "feature_singles.tsv" \in out => "pairwise_ranks.tsv" \in out
PlotsImplyRanks == "heatmap.pdf" \in out => "pairwise_ranks.tsv" \in out
CheckpointCleanedAfterRanking == (LastTask \in {"ranking", "all"} /\ ~crashed /\ cfg.batches # "none") => ~ckpt
AllIsTheThreeTasks == (LastTask = "all" /\ ~crashed /\ cfg.batches # "none") =>
                          RankingArtefacts(cfg) \cup SummaryArtefacts(cfg) \cup VisArtefacts \subseteq out
CrashOnlyWhenStated == crashed => \/ (LastTask \in {"ranking_summary", "visualization"} /\ "pairwise_ranks.tsv" \notin out)
                                  \/ (LastTask \in {"ranking", "all"} /\ cfg.kind = "Constant" /\ cfg.batches = "loop")
Emit == Len(log) = MaxTasks => PrintT(<<"CASE", cfg, log, out, ckpt, crashed>>)
=============================================================================
