------------------------------ MODULE Pipeline ------------------------------
(***************************************************************************)
(* Task orchestration of the CLI (outrank.__main__.main and the task_*     *)
(* modules): which artefacts each task reads and writes, in which order,   *)
(* and the life cycle of the on-disk checkpoint.  One action per task      *)
(* invocation; the state is the set of files in the output folder plus the *)
(* checkpoint file in the working directory.                               *)
(*   Generate         --task data_generator                                *)
(*   Ranking          --task ranking                                       *)
(*   RareValues       --task identify_rare_values   (forces Constant)      *)
(*   TransformerHints --task feature_summary_transformers (forces Constant)*)
(*   Summary          --task ranking_summary                               *)
(* The run's configuration (heuristic kind, numeric columns, whether any   *)
(* mini-batch is produced, whether a tail batch exists, interaction order) *)
(* is chosen at Init.  This module is where the specification keeps        *)
(* growing beyond the listed properties (DESIGN.md section 5).             *)
(***************************************************************************)
EXTENDS Naturals, Sequences, FiniteSets, TLC

CONSTANTS MaxTasks

VARIABLES cfg, data, out, ckpt, log, crashed
vars == <<cfg, data, out, ckpt, log, crashed>>

Configs == [kind : {"scoring", "3mr", "Constant"}, numeric : BOOLEAN, batches : {"none", "loop", "tail-only", "loop+tail"}, order : {1, 2}]
RankingArtefacts(c) ==
    {"pairwise_ranks.tsv", "memory.tsv", "value_repetitions.json", "combination_estimation_counts.json", "timings.json", "arguments.json"}
    \cup (IF c.kind = "3mr" THEN {"3mr_ranks.tsv"} ELSE {})
    \cup (IF c.numeric THEN {"numeric_feature_statistics.tsv"} ELSE {})
SummaryArtefacts(c) == {"feature_singles.tsv", "feature_singles_transformers_only_imp.tsv"}
                       \cup (IF c.order > 1 THEN {"feature_singles_aggregated.tsv"} ELSE {})
\* the checkpoint is written inside the loop for scoring heuristics and unconditionally after a tail batch
CheckpointWritten(c) == \/ (c.kind # "Constant" /\ c.batches \in {"loop", "loop+tail"})
                        \/ c.batches \in {"tail-only", "loop+tail"}

Init == /\ cfg \in Configs /\ data = FALSE /\ out = {} /\ ckpt = FALSE /\ log = <<>> /\ crashed = FALSE
CanRun == ~crashed /\ Len(log) < MaxTasks
Generate == /\ CanRun /\ data' = TRUE /\ log' = Append(log, "data_generator")
            /\ UNCHANGED <<cfg, out, ckpt, crashed>>
Ranking == /\ CanRun /\ data
           /\ log' = Append(log, "ranking")
           /\ IF cfg.batches = "none"
              THEN \* 'No rankings were obtained, exiting ..' (numeric statistics are written before)
                   /\ out' = out \cup (IF cfg.numeric THEN {} ELSE {}) /\ ckpt' = ckpt /\ crashed' = FALSE
              ELSE IF CheckpointWritten(cfg) \/ ckpt
                   THEN /\ out' = out \cup RankingArtefacts(cfg) /\ ckpt' = FALSE /\ crashed' = FALSE     \* os.remove(checkpoint)
                   ELSE \* Constant heuristic without a tail batch: nothing wrote the checkpoint, os.remove raises
                        /\ out' = out \cup RankingArtefacts(cfg) /\ ckpt' = FALSE /\ crashed' = TRUE
           /\ UNCHANGED <<cfg, data>>
RareValues == /\ CanRun /\ data
              /\ log' = Append(log, "identify_rare_values")
              /\ out' = out \cup {"rare_values.tsv", "feature_sparsity_summary.tsv"}
              /\ ckpt' = (ckpt \/ cfg.batches \in {"tail-only", "loop+tail"})        \* exit() before the clean-up
              /\ UNCHANGED <<cfg, data, crashed>>
TransformerHints == /\ CanRun /\ data
                    /\ log' = Append(log, "feature_summary_transformers")
                    /\ ckpt' = (ckpt \/ cfg.batches \in {"tail-only", "loop+tail"})
                    /\ UNCHANGED <<cfg, data, out, crashed>>
Summary == /\ CanRun
           /\ log' = Append(log, "ranking_summary")
           /\ IF "pairwise_ranks.tsv" \in out
              THEN out' = out \cup SummaryArtefacts(cfg) /\ crashed' = FALSE
              ELSE out' = out /\ crashed' = TRUE                                   \* FileNotFoundError
           /\ UNCHANGED <<cfg, data, ckpt>>
Next == Generate \/ Ranking \/ RareValues \/ TransformerHints \/ Summary
Spec == Init /\ [][Next]_vars

\* ---- properties of the orchestration
LastTask == IF log = <<>> THEN "none" ELSE log[Len(log)]
RanksImplyArtefacts == "pairwise_ranks.tsv" \in out => RankingArtefacts(cfg) \subseteq out
SummaryImpliesRanks == "feature_singles.tsv" \in out => "pairwise_ranks.tsv" \in out
CheckpointCleanedAfterRanking == (LastTask = "ranking" /\ ~crashed /\ cfg.batches # "none") => ~ckpt
CrashOnlyWhenStated == crashed => \/ (LastTask = "ranking_summary" /\ "feature_singles.tsv" \notin out)
                                  \/ (LastTask = "ranking" /\ cfg.kind = "Constant" /\ cfg.batches = "loop")
Emit == (Len(log) = MaxTasks \/ crashed) => PrintT(<<"CASE", cfg, log, out, ckpt, crashed>>)
=============================================================================
